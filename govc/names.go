package main

import (
	"encoding/json"
	"flag"
	"fmt"
	"go/token"
	"os"
	"sort"

	"golang.org/x/tools/go/ssa"
)

// Recorded names: contracts refer to parameters, results and locals by their source names. /verif/names.json
// records, for every function under contract, those names with their positions (parameter index, result index,
// ordinal of the local among the function's source-level variables, and its type) as they were when the contracts
// were written. When a contract mentions a name the function no longer has, the recorded position tells which
// variable is meant, so a rename in the repository does not by itself break the check. Regenerate with
// `govc names -out /verif/names.json` after changing contracts.

type LocalName struct {
	Name string `json:"name"`
	Ord  int    `json:"ord"`
	Type string `json:"type"`
}

type FuncNames struct {
	Params  []string    `json:"params"`
	Results []string    `json:"results"`
	Locals  []LocalName `json:"locals"`
}

type NamesFile map[string]*FuncNames

// sourceLocals lists the source-level variables (named allocs) of a function in declaration order.
func sourceLocals(fn *ssa.Function) []*ssa.Alloc {
	var out []*ssa.Alloc
	seen := map[*ssa.Alloc]bool{}
	add := func(a *ssa.Alloc) {
		if a.Comment == "" || seen[a] || !a.Pos().IsValid() {
			return
		}
		seen[a] = true
		out = append(out, a)
	}
	for _, a := range fn.Locals {
		add(a)
	}
	for _, b := range fn.Blocks {
		for _, in := range b.Instrs {
			if a, ok := in.(*ssa.Alloc); ok {
				add(a)
			}
		}
	}
	sort.SliceStable(out, func(i, j int) bool { return out[i].Pos() < out[j].Pos() })
	return out
}

func namesOf(fn *ssa.Function) *FuncNames {
	fnm := &FuncNames{}
	for _, p := range fn.Params {
		fnm.Params = append(fnm.Params, p.Name())
	}
	res := fn.Signature.Results()
	for i := 0; i < res.Len(); i++ {
		fnm.Results = append(fnm.Results, res.At(i).Name())
	}
	for i, a := range sourceLocals(fn) {
		fnm.Locals = append(fnm.Locals, LocalName{a.Comment, i, a.Type().String()})
	}
	return fnm
}

func cmdNames(args []string) int {
	fs := flag.NewFlagSet("names", flag.ExitOnError)
	repo := fs.String("repo", "/repo", "repository")
	specs := fs.String("specs", "/verif/specs", "trusted contract directory")
	out := fs.String("out", "/verif/names.json", "output file")
	fs.Parse(args)
	p, err := LoadProgram(*repo, *specs, []string{"./..."})
	if err != nil {
		fmt.Fprintln(os.Stderr, err)
		return 2
	}
	nf := NamesFile{}
	for _, k := range p.Contracts.SortedKeys() {
		c := p.Contracts.Funcs[k]
		fn := p.FuncByKey[c.Key]
		if fn == nil || len(fn.Blocks) == 0 || !p.InRepo(fn) {
			continue
		}
		nf[c.Key] = namesOf(fn)
	}
	b, _ := json.MarshalIndent(nf, "", " ")
	if err := os.WriteFile(*out, append(b, '\n'), 0o644); err != nil {
		fmt.Fprintln(os.Stderr, err)
		return 2
	}
	fmt.Printf("recorded the names of %d functions in %s\n", len(nf), *out)
	return 0
}

func loadNames(path string) NamesFile {
	nf := NamesFile{}
	if b, err := os.ReadFile(path); err == nil {
		json.Unmarshal(b, &nf)
	}
	return nf
}

// renamedLocal: the current variable of fn that the recorded name refers to, when fn has no variable of that name.
func (p *Program) renamedLocal(fn *ssa.Function, name string) *ssa.Alloc {
	if as := p.renamedLocals(fn, name); len(as) > 0 {
		return as[0]
	}
	return nil
}

// renamedLocals: every current variable that sits where the record has a variable called name (a function may
// declare the same name in several scopes, e.g. the counters of two loops).
func (p *Program) renamedLocals(fn *ssa.Function, name string) []*ssa.Alloc {
	var out []*ssa.Alloc
	rec := p.Names[fn.String()]
	if rec == nil {
		return nil
	}
	cur := sourceLocals(fn)
	for _, l := range rec.Locals {
		if l.Name != name || l.Ord >= len(cur) {
			continue
		}
		a := cur[l.Ord]
		if a.Type().String() != l.Type {
			continue
		}
		// the candidate must itself be a name the record does not know at another place (a genuine rename)
		known := false
		for _, o := range rec.Locals {
			if o.Name == a.Comment && o.Ord != l.Ord {
				known = true
			}
		}
		if !known {
			out = append(out, a)
		}
	}
	return out
}

// recordedParam / recordedResult: the name a contract may still use for parameter / result i.
func (p *Program) recordedParam(fn *ssa.Function, i int) string {
	if rec := p.Names[fn.String()]; rec != nil && i < len(rec.Params) {
		return rec.Params[i]
	}
	return ""
}

func (p *Program) recordedResult(fn *ssa.Function, i int) string {
	if rec := p.Names[fn.String()]; rec != nil && i < len(rec.Results) {
		return rec.Results[i]
	}
	return ""
}

var _ = token.NoPos
