package main

import (
	"fmt"
	"go/types"
	"strings"

	"golang.org/x/tools/go/ssa"
)

// Val is a generator-level value: scalars are SMT terms, aggregates are flattened.
type Val interface{ GoType() types.Type }

// Scalar: one SMT term (Int, Bool, Real, Slice, Str, Iface, or an SMT array for Go arrays).
type Scalar struct {
	T  Term
	Ty types.Type
}

// StructV: struct by value, one Val per field.
type StructV struct {
	Ty types.Type
	F  []Val
}

// TupleV: multiple results.
type TupleV struct {
	E []Val
}

// FuncV: a function value known at generation time.
type FuncV struct {
	Fn   *ssa.Function
	Free []Val
	Ty   types.Type
}

// ParamFuncV: a function-typed parameter of the function under verification (calls go through its callback contract).
type ParamFuncV struct {
	Name string
	Ty   types.Type
}

func (s ParamFuncV) GoType() types.Type { return s.Ty }

type rootKind int

const (
	rootLocal  rootKind = iota // a local cell (non-escaping Alloc)
	rootRef                    // a heap object identified by an Int ref
	rootElem                   // element of a slice's backing array
	rootGlobal                 // package-level variable
)

type Step struct {
	Field int  // field index, or -1 for an array index step
	Idx   Term // array index when Field == -1
}

// PtrV is a structured pointer: a root plus a path of field / array-index steps.
type PtrV struct {
	Ty     types.Type // the pointer type
	Kind   rootKind
	Alloc  *ssa.Alloc  // rootLocal
	Ref    Term        // rootRef
	RootTy types.Type  // type of the object at the root
	Slice  Term        // rootElem: the slice
	Idx    Term        // rootElem: index
	Global *ssa.Global // rootGlobal
	Steps  []Step
}

func (s Scalar) GoType() types.Type  { return s.Ty }
func (s StructV) GoType() types.Type { return s.Ty }
func (s TupleV) GoType() types.Type  { return nil }
func (s FuncV) GoType() types.Type   { return s.Ty }
func (s PtrV) GoType() types.Type    { return s.Ty }

func under(t types.Type) types.Type {
	for {
		u := t.Underlying()
		if u == t {
			return t
		}
		t = u
	}
}

func isStruct(t types.Type) bool {
	_, ok := under(t).(*types.Struct)
	return ok
}

// sortOf gives the SMT sort of a non-struct Go type.
func sortOf(t types.Type) Sort {
	switch u := under(t).(type) {
	case *types.Basic:
		switch {
		case u.Info()&types.IsBoolean != 0:
			return SBool
		case u.Info()&types.IsInteger != 0:
			return SInt
		case u.Info()&types.IsFloat != 0:
			return SReal
		case u.Info()&types.IsString != 0:
			return SStr
		case u.Kind() == types.UnsafePointer:
			return SInt
		case u.Kind() == types.UntypedNil:
			return SInt
		}
	case *types.Pointer, *types.Map, *types.Chan, *types.Signature:
		return SInt
	case *types.Slice:
		return SSlice
	case *types.Interface:
		return SIface
	case *types.Array:
		if isStruct(u.Elem()) {
			panic(unsupported("array of structs " + t.String()))
		}
		return ArraySort(sortOf(u.Elem()))
	case *types.Tuple:
		if u.Len() == 0 {
			return SInt
		}
	}
	panic(unsupported("no SMT sort for type " + t.String()))
}

// typeKey is the name under which values of this type are stored in element / cell heaps.
// Named types with a basic underlying type share the heap of the basic type, which
// makes the unsafe []byte <-> []Letter casts identities.
func typeKey(t types.Type) string {
	if b, ok := under(t).(*types.Basic); ok {
		return b.Name()
	}
	return types.TypeString(t, nil)
}

type leaf struct {
	Path []int
	Name string
	Ty   types.Type
}

// leavesOf flattens a type into its scalar leaves.
func leavesOf(t types.Type) []leaf {
	st, ok := under(t).(*types.Struct)
	if !ok {
		return []leaf{{nil, "", t}}
	}
	var out []leaf
	for i := 0; i < st.NumFields(); i++ {
		f := st.Field(i)
		for _, l := range leavesOf(f.Type()) {
			name := f.Name()
			if l.Name != "" {
				name += "." + l.Name
			}
			out = append(out, leaf{append([]int{i}, l.Path...), name, l.Ty})
		}
	}
	return out
}

type unsupportedErr string

func (u unsupportedErr) Error() string { return "outside the supported subset: " + string(u) }
func unsupported(f string, a ...interface{}) unsupportedErr {
	return unsupportedErr(fmt.Sprintf(f, a...))
}

// intRange returns the value range of a sized integer type (ok=false for int, int64, uint, uint64, uintptr:
// treated as mathematical integers, unsigned ones as non-negative).
func intRange(t types.Type) (lo, hi int64, bounded bool, unsigned bool) {
	b, ok := under(t).(*types.Basic)
	if !ok {
		return 0, 0, false, false
	}
	switch b.Kind() {
	case types.Int8:
		return -128, 127, true, false
	case types.Int16:
		return -32768, 32767, true, false
	case types.Int32:
		return -2147483648, 2147483647, true, false
	case types.Uint8:
		return 0, 255, true, true
	case types.Uint16:
		return 0, 65535, true, true
	case types.Uint32:
		return 0, 4294967295, true, true
	case types.Uint, types.Uint64, types.Uintptr:
		return 0, 0, false, true
	}
	return 0, 0, false, false
}

func isInteger(t types.Type) bool {
	b, ok := under(t).(*types.Basic)
	return ok && b.Info()&types.IsInteger != 0
}
func isFloat(t types.Type) bool {
	b, ok := under(t).(*types.Basic)
	return ok && b.Info()&types.IsFloat != 0
}
func isString(t types.Type) bool {
	b, ok := under(t).(*types.Basic)
	return ok && b.Info()&types.IsString != 0
}
func isBool(t types.Type) bool {
	b, ok := under(t).(*types.Basic)
	return ok && b.Info()&types.IsBoolean != 0
}
func isPointer(t types.Type) bool {
	_, ok := under(t).(*types.Pointer)
	return ok
}
func isSlice(t types.Type) bool {
	_, ok := under(t).(*types.Slice)
	return ok
}
func isInterface(t types.Type) bool {
	_, ok := under(t).(*types.Interface)
	return ok
}

func shortType(t types.Type) string {
	s := types.TypeString(t, func(p *types.Package) string { return p.Name() })
	return s
}

func pathName(st types.Type, path []int) string {
	var parts []string
	t := st
	for _, i := range path {
		s := under(t).(*types.Struct)
		parts = append(parts, s.Field(i).Name())
		t = s.Field(i).Type()
	}
	return strings.Join(parts, ".")
}
