#!/bin/bash
# The multiplication lemma schemas govc adds to queries (solve.go: productLemmas; specs: the rowbase axioms) are theorems of
# integer arithmetic: each one is checked here by asking the solvers for a counterexample (expected: unsat).
rc=0
chk() { r=$(printf '(set-logic ALL)\n(declare-const x Int)(declare-const y Int)(declare-const f Int)\n(assert (not %s))\n(check-sat)\n' "$2" | z3-new -in -T:20 | head -1); echo "$1: $r"; [ "$r" = unsat ] || rc=1; }
chk monotone      "(=> (and (<= x y) (>= f 0)) (<= (* x f) (* y f)))"
chk strict-gap    "(=> (and (< x y) (>= f 0)) (<= (+ (* x f) f) (* y f)))"
chk adjacent      "(=> (= y (+ x 1)) (= (* y f) (+ (* x f) f)))"
chk scale         "(=> (and (>= x 1) (>= f 0)) (>= (* x f) f))"
chk sign          "(=> (and (>= x 0) (>= f 0)) (>= (* x f) 0))"
chk rowbase-step  "(=> (= y (+ x 1)) (= (* y f) (+ (* x f) f)))"
exit $rc
