package main

import (
	"bufio"
	"fmt"
	"os"
	"path/filepath"
	"regexp"
	"sort"
	"strconv"
	"strings"
)

// Clause is one contract clause.
type Clause struct {
	Kind  string // requires ensures exsures assigns invariant decreases
	Label string // optional [label]
	Text  string
	E     Expr
	Where string // file:line
	Ord   int    // ordinal among clauses of the same kind (and loop)
}

func (c *Clause) Name() string {
	if c.Label != "" {
		return fmt.Sprintf("%s[%s]", c.Kind, c.Label)
	}
	return fmt.Sprintf("%s[%d]", c.Kind, c.Ord)
}

// CallAssert: "assert call <callee> :: expr" - expr (over the function's locals at that point and arg0..argN)
// must hold whenever the function is about to call the callee (matched by the end of its full name).
type CallAssert struct {
	Callee string
	Clause *Clause
}

type LoopSpec struct {
	Invariants  []*Clause
	Decreases   *Clause
	Unroll      int      // >0: unroll this many times instead of using an invariant (bounded by operand width)
	WritesFresh bool     // every heap write in the loop targets an object allocated after function entry (or a loop-invariant root)
	Isolate     bool     // obligations from this loop head on are proved without the quantified facts collected before it
	Assigns     []string // loop frame: the objects (assigns designators, evaluated at loop entry) the body may write besides loop-invariant roots and objects it allocates
}

// Contract is everything stated about one function.
type Contract struct {
	Key       string // full ssa name, e.g. (*github.com/biogo/biogo/seq/linear.Seq).RevComp
	ShortKey  string
	PkgPath   string
	Props     []string
	Requires  []*Clause
	Ensures   []*Clause
	Exsures   []*Clause // what holds when leaving by an error-valued panic; absent = such exits forbidden
	Panics    []*Clause // conditions under which the function is allowed to panic (evaluated at each explicit panic)
	Throws    bool      // may leave by an error-valued (non runtime.Error) panic
	Recovers  bool      // as a deferred function, a normal return stops a panic
	Assigns   []*Clause
	Loops     map[int]*LoopSpec
	Trusted   bool   // contract is assumed, body not verified (external or explicitly trusted)
	Inline    bool   // always inline instead of using the contract at call sites
	Pure      bool   // no heap effects (assigns nothing)
	MayPanic  bool   // fatal panics are part of the documented behaviour (not an obligation)
	Mode      string // "" (int) or "bv"
	Where     string
	Lemma     bool
	Used      bool
	Notes     []string
	Ghosts    []*SpecFunc          // per-application uninterpreted witness functions
	Callbacks map[string]*Contract // contracts of function-typed parameters (calls through them use these)
	CallAsserts []*CallAssert      // assertions checked just before calls to a named callee inside this function
}

// SpecFunc is a pure specification function, expanded as a macro (with body)
// or emitted as an uninterpreted function (without).
type SpecFunc struct {
	Name    string
	PkgPath string
	Params  []QVar
	Ret     TypeExpr
	Body    Expr
	Where   string
}

// GlobalFact is a trusted fact about package-level variables.
type GlobalFact struct {
	Axiom   bool
	PkgPath string
	E       Expr
	Text    string
	Where   string
}

// GhostField is ghost state attached to objects (a heap of its own, only visible to specifications).
type GhostField struct {
	Name    string
	Arg     TypeExpr
	Ret     TypeExpr
	PkgPath string
}

// ChanInv is an invariant on every value that travels through the channel stored in a struct field:
// senders must establish it, receivers may assume it.
type ChanInv struct {
	PkgPath string
	Field   string // Type.field
	Var     string
	E       Expr
	Text    string
	Where   string
}

type ContractSet struct {
	Mailboxes map[string]bool // struct fields (pkg.Type.field) holding a capacity-1 channel used by one goroutine at a time
	ChanInvs  map[string]*ChanInv
	Ghosts    map[string]*GhostField
	Funcs     map[string]*Contract
	Specs     map[string]*SpecFunc // by name (package-local names are global here; duplicates rejected)
	Globals   []*GlobalFact
	Files     []string
}

func NewContractSet() *ContractSet {
	return &ContractSet{Funcs: map[string]*Contract{}, Specs: map[string]*SpecFunc{}, Ghosts: map[string]*GhostField{}, ChanInvs: map[string]*ChanInv{}, Mailboxes: map[string]bool{}}
}

var reSpecLine = regexp.MustCompile(`^\s*//\s?@ ?(.*)$`)

// fullKey turns a package-relative key into the ssa full name.
func fullKey(pkgPath, key string) string {
	key = strings.TrimSpace(key)
	if pkgPath == "" {
		return key
	}
	if strings.HasPrefix(key, "(") {
		// (*T).M or (T).M
		i := strings.Index(key, ")")
		recv := key[1:i]
		rest := key[i+1:]
		ptr := ""
		if strings.HasPrefix(recv, "*") {
			ptr = "*"
			recv = recv[1:]
		}
		if strings.Contains(recv, ".") {
			return key
		}
		return "(" + ptr + pkgPath + "." + recv + ")" + rest
	}
	if strings.Contains(key, ".") && !strings.Contains(key, "$") {
		return key
	}
	if strings.Contains(key, "/") {
		return key
	}
	return pkgPath + "." + key
}

var clauseKinds = map[string]bool{"requires": true, "ensures": true, "exsures": true, "assigns": true,
	"property": true, "loop": true, "trusted": true, "inline": true, "pure": true, "maypanic": true, "ghost": true, "callback": true, "panics": true, "throws": true, "recovers": true, "mode": true, "note": true, "lemma": true, "assert": true}

// ParseContractFile reads //@ lines from a Go file (package contracts) or a .spec file (trusted, external).
func (cs *ContractSet) ParseContractFile(path, pkgPath string, trusted bool) error {
	f, err := os.Open(path)
	if err != nil {
		return err
	}
	defer f.Close()
	cs.Files = append(cs.Files, path)
	sc := bufio.NewScanner(f)
	sc.Buffer(make([]byte, 1<<20), 1<<20)
	var cur *Contract
	var lastClause *Clause
	var lastSpec *SpecFunc
	var lastGlobal *GlobalFact
	lineNo := 0
	isSpecFile := strings.HasSuffix(path, ".spec")
	finish := func() error {
		// parse pending expression texts
		if lastClause != nil && lastClause.E == nil && lastClause.Kind != "assigns" {
			e, err := ParseExpr(lastClause.Text)
			if err != nil {
				return fmt.Errorf("%s: %v", lastClause.Where, err)
			}
			lastClause.E = e
		}
		if lastSpec != nil && lastSpec.Body == nil && lastSpec.Where != "" {
			// body text accumulates in Where-suffixed temp: handled in spec parsing below
		}
		lastClause = nil
		return nil
	}
	var specBody *strings.Builder
	flushSpec := func() error {
		if lastSpec != nil && specBody != nil {
			txt := strings.TrimSpace(specBody.String())
			if txt != "" {
				e, err := ParseExpr(txt)
				if err != nil {
					return fmt.Errorf("%s: spec %s: %v", lastSpec.Where, lastSpec.Name, err)
				}
				lastSpec.Body = e
			}
		}
		lastSpec, specBody = nil, nil
		return nil
	}
	var globalBody *strings.Builder
	flushGlobal := func() error {
		if lastGlobal != nil {
			txt := strings.TrimSpace(globalBody.String())
			e, err := ParseExpr(txt)
			if err != nil {
				return fmt.Errorf("%s: global: %v", lastGlobal.Where, err)
			}
			lastGlobal.E, lastGlobal.Text = e, txt
			cs.Globals = append(cs.Globals, lastGlobal)
		}
		lastGlobal, globalBody = nil, nil
		return nil
	}
	flushAll := func() error {
		if err := finish(); err != nil {
			return err
		}
		if err := flushSpec(); err != nil {
			return err
		}
		return flushGlobal()
	}
	for sc.Scan() {
		lineNo++
		raw := sc.Text()
		var body string
		if m := reSpecLine.FindStringSubmatch(raw); m != nil {
			body = m[1]
		} else if isSpecFile {
			if strings.HasPrefix(strings.TrimSpace(raw), "#") {
				continue
			}
			body = raw
		} else {
			continue
		}
		if i := strings.Index(body, " -- "); i >= 0 {
			body = body[:i]
		}
		if strings.HasPrefix(strings.TrimSpace(body), "--") {
			continue
		}
		if strings.TrimSpace(body) == "" {
			continue
		}
		where := fmt.Sprintf("%s:%d", filepath.Base(path), lineNo)
		fields := strings.Fields(body)
		head := fields[0]
		rest := strings.TrimSpace(strings.TrimPrefix(strings.TrimSpace(body), head))
		switch {
		case head == "package":
			if err := flushAll(); err != nil {
				return err
			}
			pkgPath = rest
			cur = nil
		case head == "func":
			if err := flushAll(); err != nil {
				return err
			}
			key := fullKey(pkgPath, rest)
			if _, dup := cs.Funcs[key]; dup {
				return fmt.Errorf("%s: duplicate contract for %s", where, key)
			}
			cur = &Contract{Key: key, ShortKey: rest, PkgPath: pkgPath, Loops: map[int]*LoopSpec{}, Trusted: trusted, Where: where}
			cs.Funcs[key] = cur
		case head == "spec":
			if err := flushAll(); err != nil {
				return err
			}
			cur = nil
			sf, bodyTxt, err := parseSpecHeader(rest)
			if err != nil {
				return fmt.Errorf("%s: %v", where, err)
			}
			sf.PkgPath, sf.Where = pkgPath, where
			if _, dup := cs.Specs[pkgPath+"|"+sf.Name]; dup {
				return fmt.Errorf("%s: duplicate spec function %s", where, sf.Name)
			}
			cs.Specs[pkgPath+"|"+sf.Name] = sf
			lastSpec = sf
			specBody = &strings.Builder{}
			specBody.WriteString(bodyTxt)
		case head == "mailbox":
			if err := flushAll(); err != nil {
				return err
			}
			cur = nil
			cs.Mailboxes[pkgPath+"."+strings.TrimSpace(rest)] = true
		case head == "chaninv":
			if err := flushAll(); err != nil {
				return err
			}
			cur = nil
			parts := strings.SplitN(rest, "::", 2)
			hd := strings.Fields(parts[0])
			if len(parts) != 2 || len(hd) != 2 {
				return fmt.Errorf("%s: chaninv Type.field v :: expr expected", where)
			}
			e, err := ParseExpr(parts[1])
			if err != nil {
				return fmt.Errorf("%s: %v", where, err)
			}
			cs.ChanInvs[pkgPath+"."+hd[0]] = &ChanInv{PkgPath: pkgPath, Field: hd[0], Var: hd[1], E: e, Text: strings.TrimSpace(parts[1]), Where: where}
		case head == "ghostfield":
			if err := flushAll(); err != nil {
				return err
			}
			cur = nil
			sf, _, err := parseSpecHeader(rest)
			if err != nil || len(sf.Params) != 1 {
				return fmt.Errorf("%s: ghostfield NAME(x T) R expected", where)
			}
			cs.Ghosts[sf.Name] = &GhostField{Name: sf.Name, Arg: sf.Params[0].T, Ret: sf.Ret, PkgPath: pkgPath}
		case head == "global" || head == "axiom":
			if err := flushAll(); err != nil {
				return err
			}
			cur = nil
			lastGlobal = &GlobalFact{PkgPath: pkgPath, Where: where, Axiom: head == "axiom"}
			globalBody = &strings.Builder{}
			globalBody.WriteString(rest)
		case clauseKinds[head] && cur != nil:
			if err := finish(); err != nil {
				return err
			}
			switch head {
			case "property":
				cur.Props = append(cur.Props, strings.Fields(rest)...)
			case "trusted":
				cur.Trusted = true
			case "inline":
				cur.Inline = true
			case "pure":
				cur.Pure = true
			case "maypanic":
				cur.MayPanic = true
			case "throws":
				cur.Throws = true
			case "recovers":
				cur.Recovers = true
			case "lemma":
				cur.Lemma = true
			case "mode":
				cur.Mode = rest
			case "note":
				cur.Notes = append(cur.Notes, rest)
			case "assert":
				// assert call <callee> :: expr
				parts := strings.SplitN(rest, "::", 2)
				hd := strings.Fields(parts[0])
				if len(hd) > 0 && hd[0] == "assert" {
					hd = hd[1:]
				}
				if len(parts) != 2 || len(hd) != 2 || hd[0] != "call" {
					return fmt.Errorf("%s: assert call <callee> :: expr expected", where)
				}
				cl := &Clause{Kind: "assert", Where: where, Ord: len(cur.CallAsserts), Label: "call " + hd[1]}
				cl.Text = strings.TrimSpace(parts[1])
				cur.CallAsserts = append(cur.CallAsserts, &CallAssert{Callee: hd[1], Clause: cl})
				lastClause = cl
			case "callback":
				// callback <param> requires|ensures|assigns|pure <text>
				if len(fields) < 3 {
					return fmt.Errorf("%s: malformed callback clause", where)
				}
				if cur.Callbacks == nil {
					cur.Callbacks = map[string]*Contract{}
				}
				cb := cur.Callbacks[fields[1]]
				if cb == nil {
					cb = &Contract{Key: cur.Key + "$param:" + fields[1], ShortKey: fields[1], PkgPath: cur.PkgPath, Loops: map[int]*LoopSpec{}, Where: where, Trusted: false}
					cur.Callbacks[fields[1]] = cb
				}
				kind := fields[2]
				txt := strings.TrimSpace(strings.SplitN(rest, kind, 2)[1])
				cl := &Clause{Kind: kind, Where: where}
				cl.Label, cl.Text = splitLabel(txt)
				switch kind {
				case "requires":
					cl.Ord = len(cb.Requires)
					cb.Requires = append(cb.Requires, cl)
					lastClause = cl
				case "ensures":
					cl.Ord = len(cb.Ensures)
					cb.Ensures = append(cb.Ensures, cl)
					lastClause = cl
				case "assigns":
					cb.Assigns = append(cb.Assigns, cl)
					lastClause = cl
				case "pure":
					cb.Pure = true
				default:
					return fmt.Errorf("%s: unknown callback clause %q", where, kind)
				}
			case "ghost":
				sf, _, err := parseSpecHeader(rest)
				if err != nil {
					return fmt.Errorf("%s: %v", where, err)
				}
				sf.PkgPath, sf.Where = pkgPath, where
				cur.Ghosts = append(cur.Ghosts, sf)
			case "loop":
				// loop N invariant|decreases|unroll ...
				if len(fields) < 3 {
					return fmt.Errorf("%s: malformed loop clause", where)
				}
				n, err := strconv.Atoi(fields[1])
				if err != nil {
					return fmt.Errorf("%s: bad loop ordinal %q", where, fields[1])
				}
				ls := cur.Loops[n]
				if ls == nil {
					ls = &LoopSpec{}
					cur.Loops[n] = ls
				}
				kind := fields[2]
				txt := strings.TrimSpace(strings.SplitN(rest, kind, 2)[1])
				switch kind {
				case "invariant":
					c := &Clause{Kind: fmt.Sprintf("loop%d.inv", n), Where: where, Ord: len(ls.Invariants)}
					c.Label, c.Text = splitLabel(txt)
					ls.Invariants = append(ls.Invariants, c)
					lastClause = c
				case "decreases":
					c := &Clause{Kind: fmt.Sprintf("loop%d.decreases", n), Text: txt, Where: where}
					ls.Decreases = c
					lastClause = c
				case "writes":
					if txt != "fresh" {
						return fmt.Errorf("%s: only 'loop N writes fresh' is supported", where)
					}
					ls.WritesFresh = true
				case "isolate":
					ls.Isolate = true
				case "assigns":
					ls.Assigns = append(ls.Assigns, txt)
				case "unroll":
					k, err := strconv.Atoi(txt)
					if err != nil {
						return fmt.Errorf("%s: bad unroll count", where)
					}
					ls.Unroll = k
				default:
					return fmt.Errorf("%s: unknown loop clause %q", where, kind)
				}
			default:
				c := &Clause{Kind: head, Where: where}
				c.Label, c.Text = splitLabel(rest)
				switch head {
				case "requires":
					c.Ord = len(cur.Requires)
					cur.Requires = append(cur.Requires, c)
				case "ensures":
					c.Ord = len(cur.Ensures)
					cur.Ensures = append(cur.Ensures, c)
				case "exsures":
					c.Ord = len(cur.Exsures)
					cur.Exsures = append(cur.Exsures, c)
				case "panics":
					c.Ord = len(cur.Panics)
					cur.Panics = append(cur.Panics, c)
				case "assigns":
					c.Ord = len(cur.Assigns)
					cur.Assigns = append(cur.Assigns, c)
				}
				lastClause = c
			}
		default:
			// continuation of the previous clause / spec body / global
			switch {
			case lastClause != nil:
				lastClause.Text += " " + strings.TrimSpace(body)
			case lastSpec != nil:
				specBody.WriteString(" " + strings.TrimSpace(body))
			case lastGlobal != nil:
				globalBody.WriteString(" " + strings.TrimSpace(body))
			default:
				return fmt.Errorf("%s: cannot parse contract line %q", where, body)
			}
		}
	}
	if err := flushAll(); err != nil {
		return err
	}
	return sc.Err()
}

func splitLabel(s string) (label, text string) {
	s = strings.TrimSpace(s)
	if strings.HasPrefix(s, "[") {
		if i := strings.Index(s, "]"); i > 0 {
			lab := s[1:i]
			ok := lab != ""
			for _, r := range lab {
				if !(r == '-' || r == '_' || r == '.' || r >= '0' && r <= '9' || r >= 'a' && r <= 'z' || r >= 'A' && r <= 'Z') {
					ok = false
				}
			}
			if ok && !(lab[0] >= '0' && lab[0] <= '9') {
				return lab, strings.TrimSpace(s[i+1:])
			}
		}
	}
	return "", s
}

// parseSpecHeader parses "name(p T, q T) R = body" (body optional).
func parseSpecHeader(s string) (*SpecFunc, string, error) {
	i := strings.Index(s, "(")
	if i < 0 {
		return nil, "", fmt.Errorf("malformed spec declaration %q", s)
	}
	name := strings.TrimSpace(s[:i])
	depth := 0
	j := i
	for ; j < len(s); j++ {
		if s[j] == '(' {
			depth++
		} else if s[j] == ')' {
			depth--
			if depth == 0 {
				break
			}
		}
	}
	if j >= len(s) {
		return nil, "", fmt.Errorf("malformed spec declaration %q", s)
	}
	params := s[i+1 : j]
	rest := strings.TrimSpace(s[j+1:])
	ret, body := rest, ""
	if k := strings.Index(rest, "="); k >= 0 {
		ret, body = strings.TrimSpace(rest[:k]), strings.TrimSpace(rest[k+1:])
	}
	sf := &SpecFunc{Name: name}
	// params: "a, b T, c U"
	var pending []string
	for _, part := range strings.Split(params, ",") {
		part = strings.TrimSpace(part)
		if part == "" {
			continue
		}
		fs := strings.Fields(part)
		if len(fs) == 1 {
			pending = append(pending, fs[0])
			continue
		}
		te, err := parseTypeText(strings.Join(fs[1:], ""))
		if err != nil {
			return nil, "", err
		}
		for _, p := range pending {
			sf.Params = append(sf.Params, QVar{p, te})
		}
		pending = nil
		sf.Params = append(sf.Params, QVar{fs[0], te})
	}
	if len(pending) > 0 {
		return nil, "", fmt.Errorf("spec %s: parameter without type", name)
	}
	te, err := parseTypeText(ret)
	if err != nil {
		return nil, "", fmt.Errorf("spec %s: %v", name, err)
	}
	sf.Ret = te
	return sf, body, nil
}

func parseTypeText(s string) (TypeExpr, error) {
	toks, err := lex(s)
	if err != nil {
		return TypeExpr{}, err
	}
	ps := &parser{toks: toks}
	var te TypeExpr
	func() {
		defer func() {
			if r := recover(); r != nil {
				err = fmt.Errorf("bad type %q", s)
			}
		}()
		te = ps.typeExpr()
	}()
	return te, err
}

func (cs *ContractSet) SortedKeys() []string {
	var ks []string
	for k := range cs.Funcs {
		ks = append(ks, k)
	}
	sort.Strings(ks)
	return ks
}

// Spec finds a specification function by name: the one declared in the given package wins,
// then trusted spec files, then any other package (first in sorted order).
func (cs *ContractSet) Spec(name, pkgPath string) *SpecFunc {
	if sf, ok := cs.Specs[pkgPath+"|"+name]; ok {
		return sf
	}
	if sf, ok := cs.Specs["|"+name]; ok {
		return sf
	}
	var keys []string
	for k := range cs.Specs {
		if strings.HasSuffix(k, "|"+name) {
			keys = append(keys, k)
		}
	}
	if len(keys) == 0 {
		return nil
	}
	sort.Strings(keys)
	return cs.Specs[keys[0]]
}
