package main

import (
	"go/constant"
	"fmt"
	"go/ast"
	"go/token"
	"go/types"
	"regexp"
	"sort"
	"strconv"
	"strings"

	"golang.org/x/tools/go/ssa"
)

type Options struct {
	InlineDepth int
}

// Exec generates the verification condition of one function under contract.
type Exec struct {
	isoLoops  []isoLoop // isolate loops entered so far (function under verification only)
	proving   bool // a clause is being evaluated as a proof obligation (see proving() in the specification language)
	assertHit map[*CallAssert]bool
	fwd       map[string]fwdEntry // store-to-load forwarding per heap version (see store)
	prog         *Program
	vc           *VC
	opts         Options
	contract     *Contract
	fn           *ssa.Function
	track        *effects // non-nil during a dry run
	dry          int
	props        []string
	specDepth    int
	views        map[string]PtrV // array-field views: view ref symbol -> the field they snapshot
	curState     *State
	curFrame     *Frame
	entryState   *State
	recoveredArg *Term // recover() value handed to a deferred call applied by contract
	topRecovered *Term // for a function verified on its own: the symbolic value recover() returns
}

type effects struct {
	heaps    map[string][]Term // heap name -> root refs written
	all      bool
	freshSym map[string]bool
}

type retEdge struct {
	cond Term
	vals []Val
	st   *State
}

type Frame struct {
	fn         *ssa.Function
	regs       map[ssa.Value]Val
	parent     *Frame
	contract   *Contract
	prefix     string
	params     map[string]Val // entry values of parameters by name
	entry      *State         // state at entry of this activation
	rets       []retEdge
	depth      int
	loops      map[*ssa.BasicBlock]*loopInfo
	loopOrd    map[*ssa.BasicBlock]int
	edges      map[[2]int]edgeInfo
	blockReach map[int]Term
	curBlock   *ssa.BasicBlock
	prevBlock  map[int][]int
	order      []*ssa.BasicBlock
	loopHdrSt  map[*ssa.BasicBlock]*loopRun
	panics     []panicExit
	defers     []deferred
	newReach   *Term
	recovered  *Term // value recover() yields inside this activation (deferred call during panicking)
	renumbered bool
	loopPre    map[*loopInfo]*State // state on entry to each loop (before the havoc), for idx() of counting loops
	inferred   map[*loopInfo]*LoopSpec // invariants inferred for unannotated element-copy loops
	callPos    token.Pos // position of the call this activation was inlined at
	loopOwner  *Frame    // the frame whose contract annotates this frame's loops (itself, or an ancestor for a contract-less helper)
}

type deferred struct {
	call    *ssa.CallCommon
	args    []Val
	pos     token.Pos
	closure *FuncV
	cond    Term // path condition under which the defer statement was executed
}

type panicExit struct {
	cond  Term
	val   Val
	st    *State
	where string
	text  string
	cut   int // the isolate cut active where the panic was raised (its obligation is emitted at the end of the function)
	hasCut bool
}

type edgeInfo struct {
	cond Term
	st   *State
}

type loopInfo struct {
	header *ssa.BasicBlock
	body   map[int]bool
	ord    int
	skip   bool // an unannotated element-copy loop left out of the contract's numbering
}

type loopRun struct {
	measure  Term
	hasMeas  bool
	st       *State // state at header after havoc (for idx etc.)
	fresh    bool   // loop declared "writes fresh"
	invRoots map[string][]Term
	li       *loopInfo
	assigns  map[string][]designator // loop declared "assigns ...": designators per heap
	hasAsg   bool
	topPre   Term
}

func (ex *Exec) where(pos token.Pos) string { return ex.prog.position(pos) }

func (fr *Frame) name(s string) string { return fr.prefix + s }

// ---- function analysis helpers ----

func isBackEdge(from, to *ssa.BasicBlock) bool { return to.Dominates(from) }

func computeLoops(fn *ssa.Function) (map[*ssa.BasicBlock]*loopInfo, []*ssa.BasicBlock) {
	loops := map[*ssa.BasicBlock]*loopInfo{}
	for _, b := range fn.Blocks {
		for _, s := range b.Succs {
			if isBackEdge(b, s) {
				li := loops[s]
				if li == nil {
					li = &loopInfo{header: s, body: map[int]bool{s.Index: true}}
					loops[s] = li
				}
				// natural loop: nodes reaching b without passing through s
				var stack []*ssa.BasicBlock
				if !li.body[b.Index] {
					li.body[b.Index] = true
					stack = append(stack, b)
				}
				for len(stack) > 0 {
					n := stack[len(stack)-1]
					stack = stack[:len(stack)-1]
					for _, p := range n.Preds {
						if !li.body[p.Index] {
							li.body[p.Index] = true
							stack = append(stack, p)
						}
					}
				}
			}
		}
	}
	var hdrs []*ssa.BasicBlock
	for h := range loops {
		hdrs = append(hdrs, h)
	}
	// loop ordinals follow source order: order headers by the position of the first positioned instruction in the loop
	firstPos := func(li *loopInfo) token.Pos {
		best := token.Pos(0)
		for _, b := range fn.Blocks {
			if !li.body[b.Index] {
				continue
			}
			for _, in := range b.Instrs {
				if p := in.Pos(); p.IsValid() && (best == 0 || p < best) {
					best = p
				}
			}
		}
		return best
	}
	sort.Slice(hdrs, func(i, j int) bool {
		pi, pj := firstPos(loops[hdrs[i]]), firstPos(loops[hdrs[j]])
		if pi != pj {
			return pi < pj
		}
		// an enclosing loop comes first
		if len(loops[hdrs[i]].body) != len(loops[hdrs[j]].body) {
			return len(loops[hdrs[i]].body) > len(loops[hdrs[j]].body)
		}
		return hdrs[i].Index < hdrs[j].Index
	})
	for i, h := range hdrs {
		loops[h].ord = i + 1
	}
	return loops, hdrs
}

// topoOrder lists reachable blocks so that every forward predecessor precedes its successors.
func topoOrder(fn *ssa.Function) []*ssa.BasicBlock {
	visited := map[int]bool{}
	var post []*ssa.BasicBlock
	var dfs func(b *ssa.BasicBlock)
	dfs = func(b *ssa.BasicBlock) {
		visited[b.Index] = true
		for i := len(b.Succs) - 1; i >= 0; i-- {
			s := b.Succs[i]
			if isBackEdge(b, s) || visited[s.Index] {
				continue
			}
			dfs(s)
		}
		post = append(post, b)
	}
	dfs(fn.Blocks[0])
	for i, j := 0, len(post)-1; i < j; i, j = i+1, j-1 {
		post[i], post[j] = post[j], post[i]
	}
	return post
}

func isLocalCell(a *ssa.Alloc) bool {
	if a.Heap {
		return false
	}
	return true
}

// staticLocalRoot finds the local cell a store address is rooted at, if any.
func staticLocalRoot(addr ssa.Value) *ssa.Alloc {
	for {
		switch a := addr.(type) {
		case *ssa.Alloc:
			if isLocalCell(a) {
				return a
			}
			return nil
		case *ssa.FieldAddr:
			addr = a.X
		case *ssa.IndexAddr:
			if _, ok := under(a.X.Type()).(*types.Pointer); ok {
				addr = a.X
			} else {
				return nil
			}
		default:
			return nil
		}
	}
}

// ---- running a function body ----

var reSymNum = regexp.MustCompile(`!(\d+)`)

func maxSymNum(s string) int {
	m := 0
	for _, g := range reSymNum.FindAllStringSubmatch(s, -1) {
		n, _ := strconv.Atoi(g[1])
		if n > m {
			m = n
		}
	}
	return m
}

func (ex *Exec) newFrame(fn *ssa.Function, parent *Frame, prefix string) *Frame {
	return ex.newFrameAt(fn, parent, prefix, token.NoPos)
}

func (ex *Exec) newFrameAt(fn *ssa.Function, parent *Frame, prefix string, callPos token.Pos) *Frame {
	fr := &Frame{fn: fn, regs: map[ssa.Value]Val{}, parent: parent, prefix: prefix, params: map[string]Val{},
		edges: map[[2]int]edgeInfo{}, blockReach: map[int]Term{}, loopHdrSt: map[*ssa.BasicBlock]*loopRun{}, callPos: callPos}
	if parent != nil {
		fr.depth = parent.depth + 1
	}
	fr.contract = ex.prog.Contracts.Funcs[fn.String()]
	fr.loops, _ = computeLoops(fn)
	fr.order = topoOrder(fn)
	ex.assignLoopOrds(fr)
	return fr
}

// ---- "loop N isolate" ----

type isoLoop struct {
	li  *loopInfo
	cut int
}

// activeCut: the line from which quantified hypotheses are kept for obligations generated in block b - the head of the
// innermost-latest isolate loop whose header dominates b (code downstream of a finished loop keeps that loop's head
// invariants; code after an enclosing loop is not dominated by the inner header, so the outer cut applies again).
func (ex *Exec) activeCut(fr *Frame, b *ssa.BasicBlock) int {
	cut := 0
	for _, il := range ex.isoLoops {
		// inside the loop or downstream of it: exactly the blocks its header dominates (blocks are not executed in
		// program order, so "entered earlier" alone does not mean "upstream")
		if il.li.header.Dominates(b) && il.cut > cut {
			cut = il.cut
		}
	}
	return cut
}

// ---- loop ordinals across helper functions without a contract ----
//
// A contract numbers the loops of its function in source order. A repository function without a contract is inlined
// at its call sites; its loops take part in the numbering of the nearest enclosing function under contract as if they
// stood at the call site (so that moving a loop into a new helper function does not detach its annotations).

// expandedLoopKeys lists, in order, a key for every loop of fn and of the contract-less repository functions it calls:
// "#k" for fn's own k-th loop, "<callpos>/..." for a loop reached through the call at that position.
func (p *Program) expandedLoopKeys(fn *ssa.Function, depth int, onPath map[*ssa.Function]bool) []string {
	type item struct {
		pos  token.Pos
		keys []string
	}
	var items []item
	loops, hdrs := computeLoops(fn)
	firstPos := func(li *loopInfo) token.Pos {
		best := token.Pos(0)
		for _, b := range fn.Blocks {
			if !li.body[b.Index] {
				continue
			}
			for _, in := range b.Instrs {
				if q := in.Pos(); q.IsValid() && (best == 0 || q < best) {
					best = q
				}
			}
		}
		return best
	}
	for i, h := range hdrs {
		items = append(items, item{firstPos(loops[h]), []string{fmt.Sprintf("#%d", i+1)}})
	}
	if depth < 4 {
		live := liveBlocks(fn)
		for _, b := range fn.Blocks {
			if !live[b.Index] {
				continue
			}
			for _, in := range b.Instrs {
				ci, ok := in.(ssa.CallInstruction)
				if !ok {
					continue
				}
				if _, isDefer := in.(*ssa.Defer); isDefer {
					continue
				}
				if _, isGo := in.(*ssa.Go); isGo {
					continue
				}
				callee := ci.Common().StaticCallee()
				if callee == nil || callee.Parent() != nil || len(callee.Blocks) == 0 || !p.InRepo(callee) || onPath[callee] || callee == fn {
					continue
				}
				if p.Contracts.Funcs[callee.String()] != nil {
					continue
				}
				onPath[callee] = true
				sub := p.expandedLoopKeys(callee, depth+1, onPath)
				delete(onPath, callee)
				if len(sub) == 0 {
					continue
				}
				var keys []string
				for _, k := range sub {
					keys = append(keys, fmt.Sprintf("%d/%s", in.Pos(), k))
				}
				items = append(items, item{in.Pos(), keys})
			}
		}
	}
	sort.SliceStable(items, func(i, j int) bool { return items[i].pos < items[j].pos })
	var out []string
	for _, it := range items {
		out = append(out, it.keys...)
	}
	return out
}

// liveBlocks: the blocks reachable from the entry without taking a branch whose condition is the constant false/true
// the other way (code under "if debug" with a constant debug flag is never executed, symbolically either).
func liveBlocks(fn *ssa.Function) map[int]bool {
	live := map[int]bool{}
	if len(fn.Blocks) == 0 {
		return live
	}
	stack := []*ssa.BasicBlock{fn.Blocks[0]}
	if fn.Recover != nil {
		stack = append(stack, fn.Recover)
	}
	for len(stack) > 0 {
		b := stack[len(stack)-1]
		stack = stack[:len(stack)-1]
		if live[b.Index] {
			continue
		}
		live[b.Index] = true
		succs := b.Succs
		if len(b.Instrs) > 0 {
			if iff, ok := b.Instrs[len(b.Instrs)-1].(*ssa.If); ok && len(succs) == 2 {
				if k, ok := iff.Cond.(*ssa.Const); ok && k.Value != nil && k.Value.Kind() == constant.Bool {
					if constant.BoolVal(k.Value) {
						succs = succs[:1]
					} else {
						succs = succs[1:]
					}
				}
			}
		}
		stack = append(stack, succs...)
	}
	return live
}

// skipCopyLoops: when the function has more loops than its contract mentions and some of them are unannotated
// element-copy loops (inferLoopSpec), those are taken out of the numbering, so that a copy(dst, src) call rewritten
// as a loop does not shift the annotations of the loops after it.
func (ex *Exec) skipCopyLoops(fr *Frame) {
	maxOrd := 0
	for n := range fr.contract.Loops {
		if n > maxOrd {
			maxOrd = n
		}
	}
	extra := len(fr.loops) - maxOrd
	if extra <= 0 {
		return
	}
	var lis []*loopInfo
	for _, li := range fr.loops {
		lis = append(lis, li)
	}
	sort.Slice(lis, func(i, j int) bool { return lis[i].ord < lis[j].ord })
	skipped := 0
	for _, li := range lis {
		if skipped < extra && ex.isCopyLoop(fr, li) {
			skipped++
			li.skip = true
		}
	}
	if skipped == 0 {
		return
	}
	n := 0
	for _, li := range lis {
		if li.skip {
			li.ord = 1000 + li.ord
			continue
		}
		n++
		li.ord = n
	}
	fr.renumbered = true
}

// assignLoopOrds sets the ordinal of every loop of the frame's function as the contract of the nearest enclosing
// function under contract counts it.
func (ex *Exec) assignLoopOrds(fr *Frame) {
	if len(fr.loops) == 0 {
		return
	}
	owner, path := fr, ""
	if fr.contract == nil {
		for owner.contract == nil && owner.parent != nil {
			path = fmt.Sprintf("%d/", owner.callPos) + path
			owner = owner.parent
		}
	}
	if owner == fr && fr.contract == nil {
		return
	}
	if fr.contract != nil {
		ex.skipCopyLoops(fr)
	}
	keys := ex.prog.expandedLoopKeys(owner.fn, 0, map[*ssa.Function]bool{owner.fn: true})
	index := map[string]int{}
	for i, k := range keys {
		index[k] = i + 1
	}
	for _, li := range fr.loops {
		if n, ok := index[fmt.Sprintf("%s#%d", path, li.ord)]; ok {
			if n != li.ord && fr.contract != nil {
				ex.vc.Assumptions[fmt.Sprintf("loop %d of %s is counted as loop %d (loops of inlined helper functions without a contract are numbered at their call sites)", li.ord, fr.fn.Name(), n)] = true
			}
			li.ord = n
		}
	}
	fr.loopOwner = owner
}

// runBody symbolically executes fn from state st under path condition reach.
// It fills fr.rets and fr.panics.
func (ex *Exec) runBody(fr *Frame, st *State, reach Term) {
	if len(fr.fn.Blocks) == 0 {
		panic(unsupported("function %s has no body", fr.fn))
	}
	fr.entry = st.clone()
	ex.runBlocks(fr, fr.order, st, reach, nil)
	if len(fr.defers) > 0 {
		ex.unwind(fr)
	}
}

// runDeferred applies a deferred call through the callee's contract. recovered is the in-flight panic value (nil on normal exit).
// It returns the condition under which the deferred function re-raises (False when it cannot).
func (ex *Exec) runDeferred(fr *Frame, d deferred, st *State, reach Term, recovered *Term) Term {
	fn, ok := d.call.Value.(*ssa.Function)
	if !ok {
		if mc, isClosure := d.call.Value.(*ssa.MakeClosure); isClosure && d.closure != nil {
			// a deferred closure that does not recover: run its body (inlined) on this exit
			cf := mc.Fn.(*ssa.Function)
			if usesRecover(cf) && recovered != nil {
				panic(unsupported("deferred closure calling recover() on a panicking path in %s", fr.fn))
			}
			ex.inlineCall(fr, cf, d.closure.Free, d.args, st, reach, d.pos)
			fr.newReach = nil
			return False
		}
		panic(unsupported("deferred call of a non-static function in %s", fr.fn))
	}
	c := ex.prog.Contracts.Funcs[fn.String()]
	if c == nil {
		if usesRecover(fn) {
			panic(unsupported("deferred function %s calls recover() and needs a contract", fn))
		}
		ex.inlineCall(fr, fn, nil, d.args, st, reach, d.pos)
		fr.newReach = nil
		return False
	}
	var names []string
	for _, p := range fn.Params {
		names = append(names, p.Name())
	}
	rec := NilIface
	if recovered != nil {
		rec = *recovered
	}
	save := ex.recoveredArg
	ex.recoveredArg = &rec
	defer func() { ex.recoveredArg = save }()
	reraise := False
	if len(c.Panics) > 0 {
		vars := map[string]Val{}
		for i, n := range names {
			vars[n] = d.args[i]
		}
		env := &SpecEnv{vars: vars, st: st, lst: st, pkg: fnPkg(fn), topOld: st.top}
		env.old = env
		var conds []Term
		for _, pc := range c.Panics {
			conds = append(conds, ex.evalBool(pc.E, env))
		}
		reraise = ex.vc.define("reraise", Or(conds...))
	}
	cont := And(reach, Not(reraise))
	ex.applyContract(fr, c, names, d.args, fn.Signature, fn.Pkg, st, cont, d.pos, shortFuncName(fn))
	return reraise
}

// unwind runs the deferred calls for every panicking exit of the frame. A deferred function whose contract
// says `recovers` turns the panic into a normal return through the function's recover block.
func (ex *Exec) unwind(fr *Frame) {
	exits := fr.panics
	fr.panics = nil
	for _, p := range exits {
		st := p.st.clone()
		cond := p.cond
		val := ex.scalar(p.val)
		recoveredAll := False
		for i := len(fr.defers) - 1; i >= 0; i-- {
			d := fr.defers[i]
			fn, _ := d.call.Value.(*ssa.Function)
			var c *Contract
			if fn != nil {
				c = ex.prog.Contracts.Funcs[fn.String()]
			}
			if !d.cond.IsTrue() {
				panic(unsupported("conditionally registered defer on a panicking path in %s", fr.fn))
			}
			reraise := ex.runDeferred(fr, d, st, cond, &val)
			if c != nil && c.Recovers {
				// the panic continues only where the deferred function re-raised it
				recoveredAll = ex.vc.define("recovered", And(cond, Not(reraise)))
				cond = ex.vc.define("stillpanicking", And(cond, reraise))
			}
		}
		if !cond.IsFalse() {
			fr.panics = append(fr.panics, panicExit{cond, p.val, st, p.where, p.text, p.cut, p.hasCut})
		}
		if !recoveredAll.IsFalse() && fr.fn.Recover != nil {
			// resume in the recover block: it loads the named results and returns
			rb := fr.fn.Recover
			fr.curBlock = rb
			fr.blockReach[rb.Index] = recoveredAll
			saveDefers := fr.defers
			fr.defers = nil
			ex.runBlock(fr, rb, st.clone(), recoveredAll)
			fr.defers = saveDefers
		}
	}
}

// runBlocks executes the given blocks (topologically ordered). When only is
// non-nil, execution is restricted to that set (a loop body during a dry run) and
// the first block gets st/reach as its input.
func (ex *Exec) runBlocks(fr *Frame, order []*ssa.BasicBlock, st0 *State, reach0 Term, only map[int]bool) {
	first := true
	for _, b := range order {
		if only != nil && !only[b.Index] {
			continue
		}
		if b == fr.fn.Recover {
			continue
		}
		var st *State
		var reach Term
		li := fr.loops[b]
		if fr.parent == nil && ex.dry == 0 && len(ex.isoLoops) > 0 {
			ex.vc.curCut = ex.activeCut(fr, b)
		}
		if first {
			first = false
			st, reach = st0, reach0
			if li != nil && only == nil {
				// entry block is a loop header: treat entry as the only forward edge
				st, reach = ex.enterLoop(fr, li, []*State{st0}, []Term{reach0})
			} else if li != nil && only != nil {
				// dry run of this very loop: state already prepared by the caller
			}
		} else {
			var states []*State
			var conds []Term
			for _, p := range b.Preds {
				if isBackEdge(p, b) {
					continue
				}
				if e, ok := fr.edges[[2]int{p.Index, b.Index}]; ok {
					if e.cond.S == False.S {
						continue // statically dead edge (constant condition)
					}
					states = append(states, e.st)
					conds = append(conds, e.cond)
				}
			}
			if len(states) == 0 {
				continue // unreachable (e.g. only reachable through skipped blocks)
			}
			if li != nil {
				st, reach = ex.enterLoop(fr, li, states, conds)
			} else {
				st = ex.merge(states, conds)
				reach = ex.nameReach(fr, b, Or(conds...))
			}
		}
		fr.blockReach[b.Index] = reach
		fr.curBlock = b
		ex.runBlock(fr, b, st, reach)
	}
}

func (ex *Exec) nameReach(fr *Frame, b *ssa.BasicBlock, t Term) Term {
	if len(t.S) < 24 {
		return t
	}
	c := ex.vc.fresh(fmt.Sprintf("r%d", b.Index), SBool)
	ex.vc.assume(Eq(c, t))
	return c
}

func (ex *Exec) setEdge(fr *Frame, from, to *ssa.BasicBlock, cond Term, st *State) {
	if isBackEdge(from, to) {
		ex.closeLoop(fr, fr.loops[to], from, cond, st)
		return
	}
	fr.edges[[2]int{from.Index, to.Index}] = edgeInfo{cond, st}
}

// loopSpec returns the loop annotations for a loop of the frame's function.
func (fr *Frame) loopSpec(li *loopInfo) *LoopSpec {
	if ls, ok := fr.inferred[li]; ok {
		return ls
	}
	if fr.contract == nil {
		if fr.loopOwner != nil && fr.loopOwner.contract != nil {
			return fr.loopOwner.contract.Loops[li.ord]
		}
		return nil
	}
	return fr.contract.Loops[li.ord]
}

func (ex *Exec) enterLoop(fr *Frame, li *loopInfo, states []*State, conds []Term) (*State, Term) {
	h := li.header
	pre := ex.merge(states, conds)
	if fr.loopPre == nil {
		fr.loopPre = map[*loopInfo]*State{}
	}
	fr.loopPre[li] = pre
	reach := ex.nameReach(fr, h, Or(conds...))
	ls := fr.loopSpec(li)
	if ls == nil {
		if ls = ex.inferLoopSpec(fr, li); ls != nil {
			if fr.inferred == nil {
				fr.inferred = map[*loopInfo]*LoopSpec{}
			}
			fr.inferred[li] = ls
		}
	}
	if ls == nil {
		panic(unsupported("loop %d of %s has no invariant (every loop must carry one)", li.ord, fr.fn))
	}
	ex.vc.comment(fmt.Sprintf("loop %d of %s: header block %d", li.ord, fr.fn.Name(), h.Index))
	// 1. invariants hold on entry
	for _, inv := range ls.Invariants {
		env := ex.loopEnv(fr, li, pre)
		ex.proving = true
		g := ex.evalBool(inv.E, env)
		ex.proving = false
		o := ex.vc.oblige("invariant-init", fr.name(fmt.Sprintf("%s.init", inv.Name())), reach, g, inv.Where)
		o.Descr = inv.Text
	}
	if ls.Isolate && ex.dry == 0 {
		// "loop N isolate": from here on obligations are discharged without the quantified hypotheses collected so far
		// (dropping hypotheses is sound; the loop's own invariants have to restate what the rest of the function needs)
		if fr.parent == nil {
			ex.isoLoops = append(ex.isoLoops, isoLoop{li, len(ex.vc.lines)})
			ex.vc.curCut = len(ex.vc.lines)
		}
	}
	// 2. havoc what the body modifies
	st := pre.clone()
	watermark := ex.vc.counter
	modLocals := map[*ssa.Alloc]bool{}
	modIters := map[ssa.Value]bool{}
	for _, b := range fr.fn.Blocks {
		if !li.body[b.Index] {
			continue
		}
		for _, in := range b.Instrs {
			switch x := in.(type) {
			case *ssa.Store:
				if a := staticLocalRoot(x.Addr); a != nil {
					modLocals[a] = true
				}
			case *ssa.Next:
				modIters[x.Iter] = true
			}
		}
	}
	var allocs []*ssa.Alloc
	for a := range modLocals {
		allocs = append(allocs, a)
	}
	sort.Slice(allocs, func(i, j int) bool { return allocs[i].Name() < allocs[j].Name() })
	narrowed := ex.invariantDynTypes(fr, ls)
	// the allocation watermark at an arbitrary iteration: anything allocated by earlier iterations lies below it, so
	// the values carried around the back edge (slices grown by append, pointers to objects made in the loop) are typed
	// against it and not against the watermark at loop entry
	newTop := ex.vc.fresh("top", SInt)
	ex.vc.assume(Ge(newTop, pre.top))
	st.top = newTop
	for _, a := range allocs {
		if _, live := pre.locals[a]; !live {
			// declared inside the loop: no value carried around the back edge
			continue
		}
		v := ex.freshVal(a.Comment, a.Type().(*types.Pointer).Elem(), st)
		if dt, ok := narrowed[a.Comment]; ok {
			// an invariant conjunct typeis(x, T) fixes the dynamic type of this interface local: keep it syntactic
			// so that method calls on it are resolved statically (the conjunct itself is proved like any invariant)
			if sc, isSc := v.(Scalar); isSc && sc.T.Sort == SIface {
				v = Scalar{App(SIface, "mk-iface", ex.vc.typeID(dt), IfVal(sc.T)), sc.Ty}
			}
		} else if dt, ok := narrowed["?"+a.Comment]; ok {
			// x == nil || typeis(x, T): nil or that one type
			if sc, isSc := v.(Scalar); isSc && sc.T.Sort == SIface {
				isNil := ex.vc.fresh("isnil", SBool)
				v = Scalar{App(SIface, "mk-iface", App(SInt, "ite", isNil, IntLit(0), ex.vc.typeID(dt)), App(SInt, "ite", isNil, IntLit(0), IfVal(sc.T))), sc.Ty}
			}
		}
		st.locals[a] = v
	}
	for it := range modIters {
		if _, live := pre.iters[it]; live {
			c := ex.vc.fresh("iter", SInt)
			ex.vc.assume(Le(IntLit(-1), c))
			st.iters[it] = c
		}
	}
	// 3. discover heap effects with a dry run of the body (discarded)
	eff := ex.dryRunLoop(fr, li, st, reach)
	topPre := pre.top
	invRoots := map[string][]Term{}
	st.top = newTop
	loopDes := map[string][]designator{}
	if len(ls.Assigns) > 0 {
		envPre := ex.loopEnv(fr, li, pre)
		for _, a := range ls.Assigns {
			for _, part := range splitTop(a, ',') {
				for _, d := range ex.evalDesignator(strings.TrimSpace(part), envPre) {
					loopDes[d.heap] = append(loopDes[d.heap], d)
					if ex.track != nil {
						ex.noteWrite(d.heap, ex.vc.fresh("anyroot", SInt))
					}
				}
			}
		}
	}
	if eff.all {
		ex.bump(st, nil, nil)
	} else if len(eff.heaps) > 0 {
		names := map[string]bool{}
		for n := range eff.heaps {
			names[n] = true
		}
		ex.bump(st, names, func(name string, old, nh Term) Term {
			var excl []Term
			limit := topPre
			for _, r := range eff.heaps[name] {
				if eff.freshSym[r.S] {
					continue // allocated inside the loop: >= topPre
				}
				if maxSymNum(r.S) > watermark {
					if len(ls.Assigns) > 0 {
						continue // checked at every write: inside the declared loop frame or allocated by the loop
					}
					if ls.WritesFresh {
						// declared (and checked at every write): such roots were allocated after function entry
						limit = fr.entry.top
						continue
					}
					return True // root varies between iterations: no frame
				}
				excl = append(excl, r)
			}
			invRoots[name] = excl
			rv := Var("r?", SInt)
			guard := []Term{Lt(rv, limit)}
			if strings.HasPrefix(name, "G|") {
				guard = nil // ghost heaps are keyed by arbitrary integers, not by references
			}
			seen := map[string]bool{}
			for _, r := range excl {
				if !seen[r.S] {
					seen[r.S] = true
					guard = append(guard, Neq(rv, r))
				}
			}
			for _, d := range loopDes[name] {
				if d.all {
					return True
				}
				guard = append(guard, d.outside(rv))
			}
			return Forall([]Bound{{"r?", SInt}}, Implies(And(guard...), Eq(Select(nh, rv), Select(old, rv))))
		})
	}
	// 4. assume the invariants in the havocked state
	lr := &loopRun{st: st, fresh: ls.WritesFresh, invRoots: invRoots, li: li, assigns: loopDes, hasAsg: len(ls.Assigns) > 0, topPre: topPre}
	fr.loopHdrSt[h] = lr
	for _, inv := range ls.Invariants {
		env := ex.loopEnv(fr, li, st)
		g := ex.evalBool(inv.E, env)
		ex.vc.assume(Implies(reach, g))
	}
	if ex.dry == 0 {
		cv := ex.vc.oblige("vacuity", fr.name(fmt.Sprintf("vacuity:loop%d.cover", li.ord)), reach, False, "")
		cv.ExpectSat = true
		cv.Descr = "the loop invariant (together with everything assumed before) is satisfiable at the loop head"
		// ... and at a later iteration too: a head that is only reachable with idx == 0 would make the inductive step
		// of every later iteration hold vacuously (skipped where the loop has no iteration count)
		func() {
			saved := map[string]bool{}
			for k, v := range ex.vc.Assumptions {
				saved[k] = v
			}
			defer func() {
				if recover() != nil {
					ex.vc.Assumptions = saved
				}
			}()
			idx := ex.loopIdx(fr, li, st)
			ex.vc.Assumptions = saved
			later := ex.vc.oblige("vacuity", fr.name(fmt.Sprintf("vacuity:loop%d.cover-later", li.ord)), And(reach, Not(Eq(idx, IntLit(0)))), False, "")
			later.ExpectSat = true
			later.Descr = "the loop head is reachable at a later iteration (idx != 0) under the invariants"
		}()
	}
	if ls.Decreases != nil {
		env := ex.loopEnv(fr, li, st)
		m := ex.evalSpec(ls.Decreases.E, env)
		lr.measure = ex.vc.define("measure", ex.scalar(m))
		lr.hasMeas = true
	}
	return st, reach
}

func (ex *Exec) closeLoop(fr *Frame, li *loopInfo, from *ssa.BasicBlock, cond Term, st *State) {
	ls := fr.loopSpec(li)
	if ls == nil {
		return
	}
	if ex.track != nil && ex.dry > 0 && fr.loopHdrSt[li.header] == nil {
		return
	}
	for _, inv := range ls.Invariants {
		env := ex.loopEnv(fr, li, st)
		ex.proving = true
		g := ex.evalBool(inv.E, env)
		ex.proving = false
		o := ex.vc.oblige("invariant-preserved", fr.name(fmt.Sprintf("%s.preserved", inv.Name())), cond, g, inv.Where)
		o.Descr = inv.Text
	}
	if ls.Decreases != nil {
		if lr := fr.loopHdrSt[li.header]; lr != nil && lr.hasMeas {
			env := ex.loopEnv(fr, li, st)
			m := ex.scalar(ex.evalSpec(ls.Decreases.E, env))
			o := ex.vc.oblige("decreases", fr.name(ls.Decreases.Kind), cond, And(Le(IntLit(0), lr.measure), Lt(m, lr.measure)), ls.Decreases.Where)
			o.Descr = ls.Decreases.Text
		}
	}
}

// invariantDynTypes: the interface-typed locals whose dynamic type a top-level invariant conjunct typeis(x, T) fixes.
func (ex *Exec) invariantDynTypes(fr *Frame, ls *LoopSpec) map[string]types.Type {
	out := map[string]types.Type{}
	var walk func(e Expr)
	walk = func(e Expr) {
		switch x := e.(type) {
		case EBinary:
			if x.Op == "&&" {
				walk(x.X)
				walk(x.Y)
			}
			if x.Op == "||" {
				// x == nil || (typeis(x, T) && ...)
				if eq, ok := x.X.(EBinary); ok && eq.Op == "==" {
					if v, ok := eq.X.(EIdent); ok {
						if _, ok := eq.Y.(ENil); ok {
							inner := map[string]types.Type{}
							saved := out
							out = inner
							walk(x.Y)
							out = saved
							if t, ok := inner[v.Name]; ok {
								out["?"+v.Name] = t
							}
						}
					}
				}
			}

		case ECall:
			if id, ok := x.Fun.(EIdent); ok && id.Name == "typeis" && len(x.Args) == 2 {
				if v, ok := x.Args[0].(EIdent); ok {
					if te, err := exprToType(x.Args[1]); err == nil {
						if t, err := ex.prog.lookupType(te, fnPkg(fr.fn)); err == nil {
							out[v.Name] = t
						}
					}
				}
			}
		}
	}
	for _, inv := range ls.Invariants {
		if inv.E != nil {
			walk(inv.E)
		}
	}
	// a name the function no longer has: the recorded position may tell which variable is meant
	for k, t := range out {
		name, opt := k, ""
		if strings.HasPrefix(k, "?") {
			name, opt = k[1:], "?"
		}
		if ex.findLocalAt(fr, nil, token.NoPos, name) == nil {
			continue
		}
		if a := ex.findLocalAt(fr, nil, token.NoPos, name); a != nil && a.Comment != name {
			out[opt+a.Comment] = t
		}
	}
	return out
}

// dryRunLoop executes the loop body once on a scratch copy to learn which heaps it writes.
func (ex *Exec) dryRunLoop(fr *Frame, li *loopInfo, st *State, reach Term) *effects {
	saveLines, saveObls, saveTrack := len(ex.vc.lines), len(ex.vc.Obls), ex.track
	saveNames := map[string]int{}
	for k, v := range ex.vc.oblNames {
		saveNames[k] = v
	}
	saveEdges := map[[2]int]edgeInfo{}
	for k, v := range fr.edges {
		saveEdges[k] = v
	}
	saveReach := map[int]Term{}
	for k, v := range fr.blockReach {
		saveReach[k] = v
	}
	saveRets, savePanics := len(fr.rets), len(fr.panics)
	saveRegs := map[ssa.Value]Val{}
	for k, v := range fr.regs {
		saveRegs[k] = v
	}
	saveHdr := map[*ssa.BasicBlock]*loopRun{}
	for k, v := range fr.loopHdrSt {
		saveHdr[k] = v
	}
	eff := &effects{heaps: map[string][]Term{}, freshSym: map[string]bool{}}
	ex.track = eff
	ex.dry++
	saveNoDef := ex.vc.noDefine
	ex.vc.noDefine = true
	func() {
		defer func() {
			ex.dry--
			ex.vc.noDefine = saveNoDef
			ex.track = saveTrack
			ex.vc.lines = ex.vc.lines[:saveLines]
			ex.vc.Obls = ex.vc.Obls[:saveObls]
			ex.vc.oblNames = saveNames
			fr.edges = saveEdges
			fr.blockReach = saveReach
			fr.rets = fr.rets[:saveRets]
			fr.panics = fr.panics[:savePanics]
			fr.regs = saveRegs
			fr.loopHdrSt = saveHdr
		}()
		// the header is run as a plain block of the restricted region
		delete(fr.loopHdrSt, li.header)
		var order []*ssa.BasicBlock
		order = append(order, li.header)
		for _, b := range fr.order {
			if li.body[b.Index] && b != li.header {
				order = append(order, b)
			}
		}
		ex.runBlocks(fr, order, st.clone(), reach, li.body)
	}()
	if saveTrack != nil {
		// propagate to an enclosing dry run
		for n, rs := range eff.heaps {
			saveTrack.heaps[n] = append(saveTrack.heaps[n], rs...)
		}
		for s := range eff.freshSym {
			saveTrack.freshSym[s] = true
		}
		saveTrack.all = saveTrack.all || eff.all
	}
	return eff
}

func (ex *Exec) noteWrite(name string, root Term) {
	if ex.track != nil {
		ex.track.heaps[name] = append(ex.track.heaps[name], root)
		return
	}
	ex.checkFreshWrite(name, root)
}

// checkFreshWrite: inside a loop declared "writes fresh" (or with a declared loop frame "assigns ..."), every heap
// write must target an object the assumed loop frame leaves open: one allocated after function entry (writes fresh) /
// by the loop (assigns), a loop-invariant root the frame already excludes, or an object of the declared loop frame.
// The loops of every enclosing activation (inlined callees) are checked as well.
func (ex *Exec) checkFreshWrite(name string, root Term) {
	ex.checkLoopFrames(name, designator{heap: name, root: root})
}

func (ex *Exec) checkLoopFrames(name string, w designator) {
	inner := ex.curFrame
	if inner == nil || inner.curBlock == nil {
		return
	}
	reach, ok := inner.blockReach[inner.curBlock.Index]
	if !ok {
		return
	}
	for fr := inner; fr != nil; fr = fr.parent {
		if fr.curBlock == nil {
			continue
		}
		var hdrs []*ssa.BasicBlock
		for h := range fr.loopHdrSt {
			if h != nil {
				hdrs = append(hdrs, h)
			}
		}
		sort.Slice(hdrs, func(i, j int) bool { return hdrs[i].Index < hdrs[j].Index })
		for _, h := range hdrs {
			lr := fr.loopHdrSt[h]
			if lr == nil || !(lr.fresh || lr.hasAsg) || lr.li == nil || !lr.li.body[fr.curBlock.Index] {
				continue
			}
			allowed := func(root Term) Term {
				var alts []Term
				if lr.hasAsg {
					alts = append(alts, Ge(root, lr.topPre))
				} else {
					alts = append(alts, Ge(root, fr.entry.top))
				}
				for _, r := range lr.invRoots[name] {
					alts = append(alts, Eq(root, r))
				}
				for _, d := range lr.assigns[name] {
					if d.all {
						return True
					}
					alts = append(alts, d.inside(root))
				}
				return Or(alts...)
			}
			kind := "writes-fresh"
			descr := "heap write inside a loop declared 'writes fresh' targets an object allocated after function entry"
			if lr.hasAsg {
				kind = "assigns"
				descr = "heap write inside a loop targets an object of the declared loop frame (or one the loop allocated)"
			}
			var goal Term
			switch {
			case w.all:
				goal = allowed(Var("r?", SInt))
				if goal.S != True.S {
					goal = False
				}
			case w.member != nil:
				rv := Var("r?", SInt)
				goal = Forall([]Bound{{"r?", SInt}}, Implies(w.member(rv), allowed(rv)))
			default:
				goal = allowed(w.root)
			}
			o := ex.vc.oblige("frame", fr.name(fmt.Sprintf("loop%d.%s:%s", lr.li.ord, kind, heapDisplay(name))), reach, goal, "")
			o.Descr = descr
			ex.vc.assume(Implies(reach, goal))
		}
	}
}

// ---- blocks and instructions ----

func (ex *Exec) runBlock(fr *Frame, b *ssa.BasicBlock, st *State, reach Term) {
	ex.curState = st
	saveFrame := ex.curFrame
	ex.curFrame = fr
	defer func() { ex.curFrame = saveFrame }()
	for _, in := range b.Instrs {
		ex.curState = st
		fr.newReach = nil
		ex.instr(fr, b, in, st, reach)
		if fr.newReach != nil {
			// a call that may leave by a panic: the rest of the block runs only when it returned
			reach = ex.nameReach(fr, b, *fr.newReach)
		}
	}
}

func (ex *Exec) get(fr *Frame, v ssa.Value, st *State) Val {
	switch x := v.(type) {
	case *ssa.Const:
		return ex.constVal(x)
	case *ssa.Global:
		return ex.globalPtr(x)
	case *ssa.Function:
		return FuncV{Fn: x, Ty: x.Type()}
	case *ssa.Builtin:
		panic(unsupported("builtin %s used as a value", x.Name()))
	}
	if val, ok := fr.regs[v]; ok {
		return val
	}
	if fv, ok := v.(*ssa.FreeVar); ok {
		panic(unsupported("free variable %s not bound", fv.Name()))
	}
	panic(fmt.Sprintf("internal: value %s (%T) of %s used before definition", v.Name(), v, fr.fn))
}

func (ex *Exec) globalPtr(g *ssa.Global) PtrV {
	name := "g!" + g.Pkg.Pkg.Path() + "." + g.Name()
	ref, ok := ex.vc.globals[name]
	if !ok {
		ref = ex.vc.declare(name, SInt)
		// globals live at distinct negative addresses: never nil, never fresh, never confused with entry refs
		ex.vc.lateDecls = append(ex.vc.lateDecls, fmt.Sprintf("(assert (= %s (- %d)))", ref.S, len(ex.vc.globals)+1))
		ex.vc.globals[name] = ref
	}
	return PtrV{Ty: g.Type(), Kind: rootRef, Ref: ref, RootTy: g.Type().(*types.Pointer).Elem()}
}

func (ex *Exec) instr(fr *Frame, b *ssa.BasicBlock, in ssa.Instruction, st *State, reach Term) {
	switch x := in.(type) {
	case *ssa.DebugRef:
	case *ssa.Alloc:
		elem := x.Type().(*types.Pointer).Elem()
		if isLocalCell(x) {
			st.locals[x] = ex.zeroVal(elem)
			fr.regs[x] = PtrV{Ty: x.Type(), Kind: rootLocal, Alloc: x, RootTy: elem}
		} else if arr, ok := under(elem).(*types.Array); ok {
			// a heap array is an element-heap object, so that slices of it alias it
			n := IntLit(arr.Len())
			sl := ex.newArray(arr.Elem(), n, n, st)
			fr.regs[x] = PtrV{Ty: x.Type(), Kind: rootRef, Ref: SlArr(sl), RootTy: elem}
		} else {
			r := ex.allocRef("new", st)
			if ex.track != nil {
				ex.track.freshSym[r.S] = true
			}
			p := PtrV{Ty: x.Type(), Kind: rootRef, Ref: r, RootTy: elem}
			ex.store(p, ex.zeroVal(elem), st)
			fr.regs[x] = p
		}
	case *ssa.Store:
		p := ex.asPtr(ex.get(fr, x.Addr, st))
		v := ex.get(fr, x.Val, st)
		ex.nilCheck(fr, p, reach, x.Pos(), "store")
		ex.storeTracked(p, v, st)
	case *ssa.UnOp:
		fr.regs[x] = ex.unop(fr, x, st, reach)
	case *ssa.BinOp:
		fr.regs[x] = ex.binop(fr, x, st, reach)
	case *ssa.FieldAddr:
		p := ex.asPtr(ex.get(fr, x.X, st))
		ex.nilCheck(fr, p, reach, x.Pos(), "field")
		fr.regs[x] = p.withStep(Step{Field: x.Field}, x.Type())
	case *ssa.Field:
		sv := ex.get(fr, x.X, st).(StructV)
		fr.regs[x] = sv.F[x.Field]
	case *ssa.IndexAddr:
		fr.regs[x] = ex.indexAddr(fr, x, st, reach)
	case *ssa.Index:
		fr.regs[x] = ex.index(fr, x, st, reach)
	case *ssa.Lookup:
		fr.regs[x] = ex.lookup(fr, x, st, reach)
	case *ssa.Slice:
		fr.regs[x] = ex.sliceOp(fr, x, st, reach)
	case *ssa.MakeSlice:
		fr.regs[x] = ex.makeSlice(fr, x, st, reach)
	case *ssa.ChangeType:
		v := ex.get(fr, x.X, st)
		fr.regs[x] = retype(v, x.Type())
	case *ssa.Convert:
		fr.regs[x] = ex.convert(fr, x, st, reach)
	case *ssa.ChangeInterface:
		v := ex.get(fr, x.X, st)
		fr.regs[x] = retype(v, x.Type())
	case *ssa.MakeInterface:
		fr.regs[x] = ex.makeInterface(fr, x, st)
	case *ssa.TypeAssert:
		fr.regs[x] = ex.typeAssert(fr, x, st, reach)
	case *ssa.Extract:
		tv := ex.get(fr, x.Tuple, st).(TupleV)
		fr.regs[x] = tv.E[x.Index]
	case *ssa.Phi:
		var vs []Val
		var cs []Term
		for i, e := range x.Edges {
			p := b.Preds[i]
			if ei, ok := fr.edges[[2]int{p.Index, b.Index}]; ok {
				vs = append(vs, ex.get(fr, e, ei.st))
				cs = append(cs, ei.cond)
			}
		}
		fr.regs[x] = ex.mergeVals(x.Name(), vs, cs)
	case *ssa.Call:
		fr.regs[x] = ex.call(fr, x, &x.Call, st, reach)
	case *ssa.MakeClosure:
		fv := FuncV{Fn: x.Fn.(*ssa.Function), Ty: x.Type()}
		for _, b := range x.Bindings {
			fv.Free = append(fv.Free, ex.get(fr, b, st))
		}
		fr.regs[x] = fv
	case *ssa.Range:
		if !isString(x.X.Type()) {
			panic(unsupported("range over %s", shortType(x.X.Type())))
		}
		st.iters[x] = IntLit(-1)
		fr.regs[x] = ex.get(fr, x.X, st)
	case *ssa.Next:
		fr.regs[x] = ex.next(fr, x, st, reach)
	case *ssa.RunDefers:
		// normal exit: deferred calls run with recover() == nil
		for i := len(fr.defers) - 1; i >= 0; i-- {
			d := fr.defers[i]
			if d.cond.IsTrue() {
				ex.runDeferred(fr, d, st, reach, nil)
				continue
			}
			// registered only on some paths: run it on a copy and merge
			c := ex.vc.define("deferred", d.cond)
			with := st.clone()
			ex.runDeferred(fr, d, with, And(reach, c), nil)
			merged := ex.merge([]*State{with, st.clone()}, []Term{c, Not(c)})
			*st = *merged
		}
	case *ssa.Defer:
		for _, l := range fr.loops {
			if l.body[b.Index] {
				panic(unsupported("defer inside a loop in %s", fr.fn))
			}
		}
		d := deferred{call: &x.Call, pos: x.Pos(), cond: True}
		if b.Index != 0 {
			d.cond = reach
		}
		for _, a := range x.Call.Args {
			d.args = append(d.args, ex.get(fr, a, st))
		}
		if mc, ok := x.Call.Value.(*ssa.MakeClosure); ok {
			fv := ex.get(fr, mc, st).(FuncV)
			d.closure = &fv
		}
		fr.defers = append(fr.defers, d)
	case *ssa.Send:
		if ex.isMailbox(x.Chan) {
			ch := ex.scalar(ex.get(fr, x.Chan, st))
			elem := under(x.Chan.Type()).(*types.Chan).Elem()
			o := ex.vc.oblige("chan", fr.name("chan-put-full:"+chanFieldKey(x.Chan)), reach, Not(Select(mboxFull(st), ch)), ex.where(x.Pos()))
			o.Descr = "a send on a full one-slot mailbox would block forever (single goroutine)"
			ex.vc.assume(Implies(reach, Not(Select(mboxFull(st), ch))))
			ex.mboxPut(ch, elem, ex.get(fr, x.X, st), st)
			ex.mboxSetFull(ch, True, st)
			ex.vc.Assumptions["mailbox model: "+chanFieldKey(x.Chan)+" is a capacity-1 channel touched by one goroutine at a time"] = true
			break
		}
		if ci := ex.chanInvOf(x.Chan); ci != nil {
			env := &SpecEnv{vars: map[string]Val{ci.Var: ex.get(fr, x.X, st)}, st: st, lst: st, pkg: fnPkg(fr.fn), topOld: fr.entry.top}
			if owner := chanOwner(x.Chan); owner != nil {
				env.vars["self"] = ex.get(fr, owner, st) // the object whose field holds the channel
			}
			env.old = env
			o := ex.vc.oblige("chaninv", fr.name("chaninv:"+ci.Field), reach, ex.evalBool(ci.E, env), ex.where(x.Pos()))
			o.Descr = "value sent on " + ci.Field + " satisfies the channel invariant: " + ci.Text
		}
		// channel send: no effect on modelled memory (channels are opaque); single-thread assumption
		ex.vc.Assumptions["channels are opaque: a send has no modelled effect, a receive yields an arbitrary value (no deadlock reasoning)"] = true
	case *ssa.Select:
		if len(x.States) == 1 && !x.Blocking && x.States[0].Dir == types.RecvOnly && ex.isMailbox(x.States[0].Chan) {
			// take-if-present
			chv := x.States[0].Chan
			ch := ex.scalar(ex.get(fr, chv, st))
			elem := under(chv.Type()).(*types.Chan).Elem()
			full := ex.vc.define("mfull", Select(mboxFull(st), ch))
			val := ex.mboxGet(ch, elem, st)
			tup := x.Type().(*types.Tuple)
			tv := TupleV{E: []Val{Scalar{Ite(full, IntLit(0), IntLit(-1)), types.Typ[types.Int]}, Scalar{full, types.Typ[types.Bool]}}}
			if tup.Len() > 2 {
				zero := ex.zeroVal(elem)
				tv.E = append(tv.E, ex.mergeVals("taken", []Val{val, zero}, []Term{full, Not(full)}))
			}
			ex.mboxSetFull(ch, False, st)
			fr.regs[x] = tv
			break
		}
		ex.vc.Assumptions["channels are opaque: a send has no modelled effect, a receive yields an arbitrary value (no deadlock reasoning)"] = true
		idx := ex.vc.fresh("selidx", SInt)
		lo := IntLit(0)
		if !x.Blocking {
			lo = IntLit(-1)
		}
		ex.vc.assume(And(Le(lo, idx), Lt(idx, IntLit(int64(len(x.States))))))
		tv := TupleV{E: []Val{Scalar{idx, types.Typ[types.Int]}, Scalar{ex.vc.fresh("selok", SBool), types.Typ[types.Bool]}}}
		tup := x.Type().(*types.Tuple)
		ri := 2
		for si, sst := range x.States {
			if sst.Dir != types.RecvOnly {
				continue
			}
			if ri >= tup.Len() {
				break
			}
			rv := ex.freshVal("recv", tup.At(ri).Type(), st)
			if ci := ex.chanInvOf(sst.Chan); ci != nil {
				env := &SpecEnv{vars: map[string]Val{ci.Var: rv}, st: st, lst: st, pkg: fnPkg(fr.fn), topOld: fr.entry.top}
				env.old = env
				ex.vc.assume(Implies(And(reach, Eq(idx, IntLit(int64(si)))), ex.evalBool(ci.E, env)))
			}
			tv.E = append(tv.E, rv)
			ri++
		}
		for _, sst := range x.States {
			if sst.Dir == types.SendOnly {
				if ci := ex.chanInvOf(sst.Chan); ci != nil {
					panic(unsupported("select with a send on a channel carrying an invariant (%s)", ci.Field))
				}
			}
		}
		fr.regs[x] = tv
	case *ssa.MakeChan:
		fr.regs[x] = Scalar{ex.allocRef("chan", st), x.Type()}
	case *ssa.Go:
		ex.goStmt(fr, &x.Call, st, reach, x.Pos())
	case *ssa.If:
		c := ex.scalar(ex.get(fr, x.Cond, st))
		c = ex.vc.define("c", c)
		tb, fb := b.Succs[0], b.Succs[1]
		ex.setEdge(fr, b, tb, ex.edgeCond(reach, c), st)
		ex.setEdge(fr, b, fb, ex.edgeCond(reach, Not(c)), st)
	case *ssa.Jump:
		ex.setEdge(fr, b, b.Succs[0], reach, st)
	case *ssa.Return:
		var vals []Val
		for _, r := range x.Results {
			vals = append(vals, ex.get(fr, r, st))
		}
		fr.rets = append(fr.rets, retEdge{reach, vals, st})
	case *ssa.Panic:
		v := ex.get(fr, x.X, st)
		txt := ""
		if mi, ok := x.X.(*ssa.MakeInterface); ok {
			if c, ok := mi.X.(*ssa.Const); ok && c.Value != nil {
				txt = c.Value.ExactString()
			}
		}
		fr.panics = append(fr.panics, panicExit{reach, v, st, ex.where(x.Pos()), txt, ex.vc.curCut, true})
	default:
		panic(unsupported("instruction %T (%s) in %s", in, in, fr.fn))
	}
}

func (ex *Exec) edgeCond(reach, c Term) Term {
	t := And(reach, c)
	if len(t.S) < 40 {
		return t
	}
	n := ex.vc.fresh("e", SBool)
	ex.vc.assume(Eq(n, t))
	return n
}

func (ex *Exec) storeTracked(p PtrV, v Val, st *State) {
	if p.Kind != rootLocal {
		ex.noteStore(p)
	}
	ex.store(p, v, st)
}

// noteStore records, for a dry run, which heaps a store to p touches.
func (ex *Exec) noteStore(p PtrV) {
	t := p.pointee()
	var fieldPaths [][]int
	basePath, _, err := splitSteps(p.Steps)
	if err != nil {
		panic(err)
	}
	if isStruct(t) {
		for _, l := range leavesOf(t) {
			fieldPaths = append(fieldPaths, append(append([]int(nil), basePath...), l.Path...))
		}
	} else {
		fieldPaths = [][]int{basePath}
	}
	for _, path := range fieldPaths {
		switch p.Kind {
		case rootRef:
			if isStruct(p.RootTy) {
				n, _ := fieldHeap(p.RootTy, path)
				ex.noteWrite(n, p.Ref)
			} else {
				ex.noteWrite(cellHeap(p.RootTy), p.Ref)
			}
		case rootElem:
			n, _ := elemHeap(p.RootTy, path)
			ex.noteWrite(n, SlArr(p.Slice))
		}
	}
}

func retype(v Val, t types.Type) Val {
	switch x := v.(type) {
	case Scalar:
		return Scalar{x.T, t}
	case StructV:
		return StructV{Ty: t, F: x.F}
	case PtrV:
		x.Ty = t
		return x
	case FuncV:
		x.Ty = t
		return x
	}
	return v
}

func (ex *Exec) nilCheck(fr *Frame, p PtrV, reach Term, pos token.Pos, what string) {
	if p.Kind != rootRef || len(p.Steps) > 0 {
		return
	}
	if strings.HasPrefix(p.Ref.S, "new!") || strings.HasPrefix(p.Ref.S, "g!") || strings.HasPrefix(p.Ref.S, "|g!") {
		return
	}
	key := "nil:" + p.Ref.S
	if fr.nilChecked(key) {
		return
	}
	txt := ex.prog.exprTextAt(fr.fn, pos, func(n ast.Node) bool {
		switch n.(type) {
		case *ast.SelectorExpr, *ast.StarExpr, *ast.IndexExpr:
			return true
		}
		return false
	})
	if txt == "" {
		txt = what
	}
	o := ex.vc.oblige("nil", fr.name("nil:"+txt), reach, Neq(p.Ref, IntLit(0)), ex.where(pos))
	o.Descr = "pointer dereference"
	ex.vc.assume(Implies(reach, Neq(p.Ref, IntLit(0))))
}

var nilSeen = map[*Frame]map[string]bool{}

func (fr *Frame) nilChecked(key string) bool {
	m := nilSeen[fr]
	if m == nil {
		m = map[string]bool{}
		nilSeen[fr] = m
	}
	k := fmt.Sprintf("%d/%s", fr.curBlock.Index, key)
	if m[k] {
		return true
	}
	m[k] = true
	return false
}

func (ex *Exec) constVal(c *ssa.Const) Val {
	t := c.Type()
	if c.Value == nil {
		// nil or zero value
		if tt, ok := t.(*types.Tuple); ok && tt.Len() == 0 {
			return TupleV{}
		}
		return ex.zeroVal(t)
	}
	switch {
	case isBool(t):
		return Scalar{BoolLit(c.Value.String() == "true"), t}
	case isInteger(t):
		if i, ok := constInt(c); ok {
			return Scalar{BigLit(i), t}
		}
	case isFloat(t):
		if r, ok := constRat(c); ok {
			return Scalar{RealLit(r), t}
		}
	case isString(t):
		return Scalar{ex.stringConst(constString(c)), t}
	}
	panic(unsupported("constant %s of type %s", c, shortType(t)))
}

// stringConst declares a constant array holding the bytes of s.
func (ex *Exec) stringConst(s string) Term {
	if s == "" {
		return emptyStr
	}
	name := "str!" + strconv.Quote(s)
	if len(name) > 40 {
		name = fmt.Sprintf("str!%q~%d", s[:20], hashString(s))
	}
	q := quoteSym(name)
	arr := Term{q, ArraySort(SInt)}
	if !ex.vc.declared[q] {
		ex.vc.declare(name, ArraySort(SInt))
		for i := 0; i < len(s); i++ {
			ex.vc.lateDecls = append(ex.vc.lateDecls, fmt.Sprintf("(assert (= (select %s %d) %d))", q, i, s[i]))
		}
	}
	return MkStr(arr, IntLit(0), IntLit(int64(len(s))))
}

func hashString(s string) uint32 {
	var h uint32 = 2166136261
	for i := 0; i < len(s); i++ {
		h ^= uint32(s[i])
		h *= 16777619
	}
	return h
}

// goStmt: the effects of the started goroutine are applied (as a havoc of what its contract may assign)
// at the go statement; nothing its contract ensures is assumed. Sound only for the sequential reading
// in which the caller does not observe the goroutine's writes before synchronising with it.
func (ex *Exec) goStmt(fr *Frame, c *ssa.CallCommon, st *State, reach Term, pos token.Pos) {
	ex.vc.Assumptions["go statements: the goroutine's possible writes (its assigns clause) are havocked at the go statement; interleavings are not explored"] = true
	fn, ok := c.Value.(*ssa.Function)
	var ct *Contract
	if ok {
		ct = ex.prog.Contracts.Funcs[fn.String()]
	}
	if ct == nil || (len(ct.Assigns) == 0 && !ct.Pure) {
		ex.bump(st, nil, nil)
		if ex.track != nil {
			ex.track.all = true
		}
		return
	}
	vars := map[string]Val{}
	for i, p := range fn.Params {
		if i < len(c.Args) {
			vars[p.Name()] = ex.get(fr, c.Args[i], st)
		}
	}
	env := &SpecEnv{vars: vars, st: st.clone(), lst: st, pkg: fnPkg(fn), topOld: st.top}
	env.old = env
	names := map[string]bool{}
	byHeap := map[string][]designator{}
	for _, a := range ct.Assigns {
		for _, part := range splitTop(a.Text, ',') {
			part = strings.TrimSpace(part)
			if part == "nothing" || part == "fresh" {
				continue
			}
			for _, d := range ex.evalDesignator(part, env) {
				names[d.heap] = true
				byHeap[d.heap] = append(byHeap[d.heap], d)
				if d.all || d.member != nil {
					ex.noteWrite(d.heap, ex.vc.fresh("anyroot", SInt))
				} else {
					ex.noteWrite(d.heap, d.root)
				}
			}
		}
	}
	topPre := st.top
	ex.bump(st, names, func(name string, old, nh Term) Term {
		rv := Var("r?", SInt)
		guard := []Term{Lt(rv, topPre)}
		if strings.HasPrefix(name, "G|") {
			guard = nil
		}
		for _, d := range byHeap[name] {
			if d.all {
				return True
			}
			guard = append(guard, d.outside(rv))
		}
		return Forall([]Bound{{"r?", SInt}}, Implies(And(guard...), Eq(Select(nh, rv), Select(old, rv))))
	})
	nt := ex.vc.fresh("top", SInt)
	ex.vc.assume(Ge(nt, topPre))
	st.top = nt
	// postconditions labelled stable-* are invariants the goroutine maintains at every instant
	// (each of its writes re-establishes them); they may be assumed while it runs
	post := &SpecEnv{vars: vars, st: st, lst: st, pkg: fnPkg(fn), old: env, topOld: topPre}
	for _, e := range ct.Ensures {
		if strings.HasPrefix(e.Label, "stable-") {
			ex.vc.assume(Implies(reach, ex.evalBool(e.E, post)))
			ex.vc.Assumptions["stable invariant of a started goroutine assumed while it runs: "+e.Text] = true
		}
	}
}

// chanFieldKey names the struct field (pkg.Type.field) a channel value was loaded from.
func chanFieldKey(ch ssa.Value) string {
	ld, ok := ch.(*ssa.UnOp)
	if !ok || ld.Op != token.MUL {
		return ""
	}
	fa, ok := ld.X.(*ssa.FieldAddr)
	if !ok {
		return ""
	}
	pt, ok := under(fa.X.Type()).(*types.Pointer)
	if !ok {
		return ""
	}
	named, ok := pt.Elem().(*types.Named)
	if !ok || named.Obj().Pkg() == nil {
		return ""
	}
	st, ok := under(named).(*types.Struct)
	if !ok {
		return ""
	}
	return named.Obj().Pkg().Path() + "." + named.Obj().Name() + "." + st.Field(fa.Field).Name()
}

func (ex *Exec) isMailbox(ch ssa.Value) bool {
	k := chanFieldKey(ch)
	return k != "" && ex.prog.Contracts.Mailboxes[k]
}

// Mailbox model of a capacity-1 channel touched by one goroutine at a time: ghost heaps keyed by the channel.
func mboxFull(st *State) Term { return st.heap("G|mbox.full", ArraySort(SBool)) }

func (ex *Exec) mboxLeafHeap(elem types.Type, l leaf, st *State) (string, Term) {
	name := "G|mbox." + typeKey(elem) + "." + l.Name
	heapLeafTypes[name] = l.Ty
	return name, st.heap(name, ArraySort(sortOf(l.Ty)))
}

func (ex *Exec) mboxGet(ch Term, elem types.Type, st *State) Val {
	var build func(t types.Type, prefix []int) Val
	build = func(t types.Type, prefix []int) Val {
		if s, ok := under(t).(*types.Struct); ok {
			out := StructV{Ty: t, F: make([]Val, s.NumFields())}
			for i := 0; i < s.NumFields(); i++ {
				out.F[i] = build(s.Field(i).Type(), append(append([]int(nil), prefix...), i))
			}
			return out
		}
		_, h := ex.mboxLeafHeap(elem, leaf{prefix, pathName(elem, prefix), t}, st)
		return Scalar{Select(h, ch), t}
	}
	return build(elem, nil)
}

func (ex *Exec) mboxPut(ch Term, elem types.Type, v Val, st *State) {
	for _, l := range leavesOf(elem) {
		name, h := ex.mboxLeafHeap(elem, l, st)
		nh := ex.vc.fresh(name, h.Sort)
		ex.vc.assume(Eq(nh, Store(h, ch, ex.scalar(leafOf(v, l.Path)))))
		st.heaps[name] = nh
		ex.noteWrite(name, ch)
	}
}

func (ex *Exec) mboxSetFull(ch Term, full Term, st *State) {
	h := mboxFull(st)
	nh := ex.vc.fresh("G|mbox.full", h.Sort)
	ex.vc.assume(Eq(nh, Store(h, ch, full)))
	st.heaps["G|mbox.full"] = nh
	ex.noteWrite("G|mbox.full", ch)
}

// chanOwner: the struct pointer a channel value was loaded from (x in x.field).
func chanOwner(ch ssa.Value) ssa.Value {
	if ld, ok := ch.(*ssa.UnOp); ok && ld.Op == token.MUL {
		if fa, ok := ld.X.(*ssa.FieldAddr); ok {
			return fa.X
		}
	}
	return nil
}

// chanInvOf finds the channel invariant attached to the struct field a channel value was loaded from.
func (ex *Exec) chanInvOf(ch ssa.Value) *ChanInv {
	ld, ok := ch.(*ssa.UnOp)
	if !ok || ld.Op != token.MUL {
		return nil
	}
	fa, ok := ld.X.(*ssa.FieldAddr)
	if !ok {
		return nil
	}
	pt, ok := under(fa.X.Type()).(*types.Pointer)
	if !ok {
		return nil
	}
	named, ok := pt.Elem().(*types.Named)
	if !ok || named.Obj().Pkg() == nil {
		return nil
	}
	st, ok := under(named).(*types.Struct)
	if !ok {
		return nil
	}
	key := named.Obj().Pkg().Path() + "." + named.Obj().Name() + "." + st.Field(fa.Field).Name()
	return ex.prog.Contracts.ChanInvs[key]
}
