package main

import (
	"fmt"
	"go/ast"
	"go/token"
	"go/types"
	"os"
	"path/filepath"
	"sort"
	"strings"

	"golang.org/x/tools/go/packages"
	"golang.org/x/tools/go/ssa"
	"golang.org/x/tools/go/ssa/ssautil"
)

const modPath = "github.com/biogo/biogo"

type Program struct {
	Repo       string
	Fset       *token.FileSet
	Pkgs       []*packages.Package
	SSA        *ssa.Program
	Contracts  *ContractSet
	FuncByKey  map[string]*ssa.Function
	pkgByPath  map[string]*packages.Package
	pkgByName  map[string]*types.Package
	pkgsByName map[string][]*types.Package
	Names      NamesFile // recorded parameter/result/local names of the functions under contract (rename tolerance)
}

// LoadProgram loads the packages of /repo that carry contracts (plus dependencies),
// builds naive-form SSA and parses every contract file.
func LoadProgram(repo, specDir string, patterns []string) (*Program, error) {
	cfg := &packages.Config{
		Mode:       packages.LoadAllSyntax,
		Dir:        repo,
		BuildFlags: []string{"-tags=verif"},
		Env:        append(os.Environ(), "GOFLAGS=-mod=mod", "GOPROXY=off", "GOSUMDB=off", "GOTOOLCHAIN=local", "CGO_ENABLED=0"),
	}
	pkgs, err := packages.Load(cfg, patterns...)
	if err != nil {
		return nil, err
	}
	var errs []string
	packages.Visit(pkgs, nil, func(p *packages.Package) {
		for _, e := range p.Errors {
			errs = append(errs, e.Error())
		}
	})
	if len(errs) > 0 {
		return nil, fmt.Errorf("package errors:\n%s", strings.Join(errs, "\n"))
	}
	prog, _ := ssautil.AllPackages(pkgs, ssa.NaiveForm|ssa.GlobalDebug)
	prog.Build()
	p := &Program{Repo: repo, Pkgs: pkgs, SSA: prog, Contracts: NewContractSet(), FuncByKey: map[string]*ssa.Function{},
		pkgByPath: map[string]*packages.Package{}, pkgByName: map[string]*types.Package{}, pkgsByName: map[string][]*types.Package{}}
	if len(pkgs) > 0 {
		p.Fset = pkgs[0].Fset
	}
	packages.Visit(pkgs, nil, func(pk *packages.Package) {
		p.pkgByPath[pk.PkgPath] = pk
		if pk.Types != nil {
			p.pkgsByName[pk.Name] = append(p.pkgsByName[pk.Name], pk.Types)
			if _, dup := p.pkgByName[pk.Name]; !dup || strings.HasPrefix(pk.PkgPath, modPath) {
				p.pkgByName[pk.Name] = pk.Types
			}
		}
	})
	// contract files inside the repository packages
	var paths []string
	for path := range p.pkgByPath {
		paths = append(paths, path)
	}
	sort.Strings(paths)
	for _, path := range paths {
		pk := p.pkgByPath[path]
		if !strings.HasPrefix(path, modPath) {
			continue
		}
		for _, f := range pk.GoFiles {
			if strings.HasPrefix(filepath.Base(f), "verif_contracts") {
				if err := p.Contracts.ParseContractFile(f, path, false); err != nil {
					return nil, err
				}
			}
		}
	}
	// trusted external contracts
	if specDir != "" {
		files, _ := filepath.Glob(filepath.Join(specDir, "*.spec"))
		sort.Strings(files)
		for _, f := range files {
			if err := p.Contracts.ParseContractFile(f, "", true); err != nil {
				return nil, err
			}
		}
	}
	// index all functions
	for fn := range ssautil.AllFunctions(prog) {
		p.FuncByKey[fn.String()] = fn
	}
	return p, nil
}

func (p *Program) InRepo(fn *ssa.Function) bool {
	if fn.Pkg != nil {
		return strings.HasPrefix(fn.Pkg.Pkg.Path(), modPath)
	}
	// synthetic wrappers (promoted methods, bound methods) have no package: go by the receiver's type
	if recv := fn.Signature.Recv(); recv != nil {
		if n, ok := derefNamed(recv.Type()); ok && n.Obj().Pkg() != nil {
			return strings.HasPrefix(n.Obj().Pkg().Path(), modPath)
		}
	}
	if len(fn.Params) > 0 {
		if n, ok := derefNamed(fn.Params[0].Type()); ok && n.Obj().Pkg() != nil {
			return strings.HasPrefix(n.Obj().Pkg().Path(), modPath)
		}
	}
	return false
}

// position renders a token position relative to the repository.
func (p *Program) position(pos token.Pos) string {
	if !pos.IsValid() {
		return ""
	}
	ps := p.Fset.Position(pos)
	rel, err := filepath.Rel(p.Repo, ps.Filename)
	if err != nil || strings.HasPrefix(rel, "..") {
		rel = ps.Filename
	}
	return fmt.Sprintf("%s:%d", rel, ps.Line)
}

// sourceText returns the source text of the smallest expression of the wanted
// kind at pos inside fn (used to give obligations stable, readable names).
func (p *Program) exprTextAt(fn *ssa.Function, pos token.Pos, want func(ast.Node) bool) string {
	syn := fn.Syntax()
	if syn == nil || !pos.IsValid() {
		return ""
	}
	var found ast.Node
	ast.Inspect(syn, func(n ast.Node) bool {
		if n == nil {
			return false
		}
		if n.Pos() <= pos && pos < n.End() {
			if want(n) {
				found = n
			}
			return true
		}
		return false
	})
	if found == nil {
		return ""
	}
	return p.nodeText(found)
}

func (p *Program) nodeText(n ast.Node) string {
	start := p.Fset.Position(n.Pos())
	end := p.Fset.Position(n.End())
	data, err := os.ReadFile(start.Filename)
	if err != nil || start.Offset < 0 || end.Offset > len(data) || start.Offset > end.Offset {
		return ""
	}
	s := string(data[start.Offset:end.Offset])
	s = strings.Join(strings.Fields(s), " ")
	if len(s) > 60 {
		s = s[:57] + "..."
	}
	return s
}

// lookupType resolves a spec-language type name in the context of a package.
func (p *Program) lookupType(te TypeExpr, ctx *types.Package) (types.Type, error) {
	var base types.Type
	if te.Pkg == "" {
		if obj := types.Universe.Lookup(te.Name); obj != nil {
			if tn, ok := obj.(*types.TypeName); ok {
				base = tn.Type()
			}
		}
		if base == nil && ctx != nil {
			if obj := ctx.Scope().Lookup(te.Name); obj != nil {
				if tn, ok := obj.(*types.TypeName); ok {
					base = tn.Type()
				}
			}
		}
		if base == nil {
			switch te.Name {
			case "real":
				base = types.Typ[types.Float64]
			case "ref":
				base = types.Typ[types.Int]
			}
		}
	} else {
		var pk *types.Package
		if ctx != nil {
			for _, imp := range ctx.Imports() {
				if imp.Name() == te.Pkg {
					pk = imp
				}
			}
		}
		cands := p.pkgsByName[te.Pkg]
		if pk != nil {
			cands = append([]*types.Package{pk}, cands...)
		}
		for _, c := range cands {
			if obj := c.Scope().Lookup(te.Name); obj != nil {
				if tn, ok := obj.(*types.TypeName); ok {
					base = tn.Type()
					break
				}
			}
		}
	}
	if base == nil {
		return nil, fmt.Errorf("unknown type %s in spec", te)
	}
	if te.Ptr {
		base = types.NewPointer(base)
	}
	if te.Slice {
		base = types.NewSlice(base)
	}
	return base, nil
}

// lookupConst resolves a (possibly qualified) package-level constant.
func (p *Program) lookupObject(pkgName, name string, ctx *types.Package) types.Object {
	if pkgName == "" {
		if ctx != nil {
			if o := ctx.Scope().Lookup(name); o != nil {
				return o
			}
		}
		return types.Universe.Lookup(name)
	}
	var pk *types.Package
	if ctx != nil {
		for _, imp := range ctx.Imports() {
			if imp.Name() == pkgName {
				pk = imp
			}
		}
	}
	cands := p.pkgsByName[pkgName]
	if pk != nil {
		cands = append([]*types.Package{pk}, cands...)
	}
	for _, c := range cands {
		if o := c.Scope().Lookup(name); o != nil {
			return o
		}
	}
	return nil
}

// fnPkg is the types.Package a function belongs to (synthetic wrappers: the package of the receiver type).
func fnPkg(fn *ssa.Function) *types.Package {
	if fn.Pkg != nil {
		return fn.Pkg.Pkg
	}
	if recv := fn.Signature.Recv(); recv != nil {
		if n, ok := derefNamed(recv.Type()); ok {
			return n.Obj().Pkg()
		}
	}
	if len(fn.Params) > 0 {
		if n, ok := derefNamed(fn.Params[0].Type()); ok {
			return n.Obj().Pkg()
		}
	}
	if fn.Parent() != nil {
		return fnPkg(fn.Parent())
	}
	return nil
}
