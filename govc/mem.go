package main

import (
	"fmt"
	"go/types"
	"sort"
	"strings"

	"golang.org/x/tools/go/ssa"
)

// ---- verification condition under construction ----

type Obligation struct {
	Name      string
	Kind      string
	Func      string
	Pos       int  // number of assertion lines visible to this obligation
	Cut       int  // quantified lines before this one are left out ("loop N isolate")
	Reach     Term // path condition of the program point
	Goal      Term
	Where     string
	ExpectSat bool // vacuity checks: the query must be satisfiable
	Props     []string
	Descr     string
	// results
	Status   string // proved failed unknown error
	Solver   string
	Time     float64
	Model    string
	Output   string
	SmtFile  string
	ByWhich  map[string]string
	Replayed string
}

type VC struct {
	SizeHints   []string // Bool terms bounding the sizes of the inputs (used only to hunt for a small counter-model)
	FuncName    string
	decls       []string
	declared    map[string]bool
	lines       []string
	Obls        []*Obligation
	counter     int
	typeIDs     map[string]int
	typeByID    []types.Type
	Assumptions map[string]bool
	Unmodelled  map[string]bool
	oblNames    map[string]int
	globals     map[string]Term
	lateDecls   []string
	noDefine    bool
	curCut      int // see "loop N isolate": quantified lines before this line are not shown to obligations created now
	mulCache    map[string]mulDef
	defCache    map[string]Term
	factCache   map[string]bool
	ifaces      map[string]types.Type
}

func NewVC(fn string) *VC {
	return &VC{FuncName: fn, declared: map[string]bool{}, typeIDs: map[string]int{}, Assumptions: map[string]bool{},
		Unmodelled: map[string]bool{}, oblNames: map[string]int{}, globals: map[string]Term{}}
}

func (vc *VC) declare(name string, sort Sort) Term {
	q := quoteSym(name)
	if !vc.declared[q] {
		vc.declared[q] = true
		vc.decls = append(vc.decls, fmt.Sprintf("(declare-const %s %s)", q, sort))
	}
	return Term{q, sort}
}

func (vc *VC) declareFun(name string, args []Sort, ret Sort) string {
	q := quoteSym(name)
	if !vc.declared[q] {
		vc.declared[q] = true
		var as []string
		for _, a := range args {
			as = append(as, string(a))
		}
		vc.decls = append(vc.decls, fmt.Sprintf("(declare-fun %s (%s) %s)", q, strings.Join(as, " "), ret))
	}
	return q
}

func (vc *VC) fresh(hint string, sort Sort) Term {
	vc.counter++
	c := vc.declare(fmt.Sprintf("%s!%d", hint, vc.counter), sort)
	if len(hint) > 2 && hint[1] == '|' && sort.IsArray() {
		if ax := heapRangeAxiom(hint, c); !ax.IsTrue() {
			vc.assume(ax)
		}
	}
	return c
}

func (vc *VC) assume(t Term) {
	if t.IsTrue() {
		return
	}
	if t.Sort != SBool {
		panic("assume of non-Bool " + t.S)
	}
	vc.lines = append(vc.lines, "(assert "+t.S+")")
}

func (vc *VC) comment(s string) {
	vc.lines = append(vc.lines, "; "+strings.ReplaceAll(s, "\n", " "))
}

// define names a term so later formulas stay small.
func (vc *VC) define(hint string, t Term) Term {
	if len(t.S) < 48 || strings.Contains(t.S, "?") || vc.noDefine {
		return t // small, or mentions a bound variable, or a dry run wants pre-loop terms
	}
	if vc.defCache == nil {
		vc.defCache = map[string]Term{}
	}
	if c, ok := vc.defCache[t.S]; ok {
		return c
	}
	c := vc.fresh(hint, t.Sort)
	vc.assume(Eq(c, t))
	vc.defCache[t.S] = c
	return c
}

func (vc *VC) typeID(t types.Type) Term {
	k := types.TypeString(t, nil)
	id, ok := vc.typeIDs[k]
	if !ok {
		id = len(vc.typeIDs) + 1
		vc.typeIDs[k] = id
		vc.typeByID = append(vc.typeByID, t)
	}
	return IntLit(int64(id))
}

func (vc *VC) oblige(kind, name string, reach, goal Term, where string) *Obligation {
	full := vc.FuncName + "#" + name
	vc.oblNames[full]++
	if n := vc.oblNames[full]; n > 1 {
		full = fmt.Sprintf("%s#%d", full, n)
	}
	o := &Obligation{Name: full, Kind: kind, Func: vc.FuncName, Pos: len(vc.lines), Cut: vc.curCut, Reach: reach, Goal: goal, Where: where}
	vc.Obls = append(vc.Obls, o)
	return o
}

// ---- symbolic state ----

type State struct {
	locals map[*ssa.Alloc]Val
	iters  map[ssa.Value]Term
	heaps  map[string]Term
	origin func(name string, sort Sort) Term
	top    Term
}

func (st *State) clone() *State {
	n := &State{locals: make(map[*ssa.Alloc]Val, len(st.locals)), iters: make(map[ssa.Value]Term, len(st.iters)),
		heaps: make(map[string]Term, len(st.heaps)), origin: st.origin, top: st.top}
	for k, v := range st.locals {
		n.locals[k] = v
	}
	for k, v := range st.iters {
		n.iters[k] = v
	}
	for k, v := range st.heaps {
		n.heaps[k] = v
	}
	return n
}

func (st *State) heap(name string, sort Sort) Term {
	if t, ok := st.heaps[name]; ok {
		return t
	}
	t := st.origin(name, sort)
	st.heaps[name] = t
	return t
}

func (st *State) heapNames() []string {
	var ns []string
	for n := range st.heaps {
		ns = append(ns, n)
	}
	sort.Strings(ns)
	return ns
}

// ---- heap naming ----

// heapLeafTypes remembers the Go type stored in each heap (for the range axioms of sized integers).
var heapLeafTypes = map[string]types.Type{}

func fieldHeap(rootTy types.Type, path []int) (string, types.Type) {
	t := rootTy
	for _, i := range path {
		t = under(t).(*types.Struct).Field(i).Type()
	}
	n := "F|" + types.TypeString(rootTy, nil) + "|" + pathName(rootTy, path)
	heapLeafTypes[n] = t
	return n, t
}

func cellHeap(t types.Type) string {
	n := "H|" + typeKey(t)
	heapLeafTypes[n] = t
	return n
}

func elemHeap(elemTy types.Type, path []int) (string, types.Type) {
	t := elemTy
	for _, i := range path {
		t = under(t).(*types.Struct).Field(i).Type()
	}
	n := "E|" + typeKey(elemTy) + "|" + pathName(elemTy, path)
	heapLeafTypes[n] = t
	return n, t
}

// heapRefAxiom: every reference stored in the entry heap denotes an object that existed at entry
// (needed when heap cells are read under quantifiers, where no per-load fact is generated).
func heapRefAxiom(name string, h Term, top Term) Term {
	t, ok := heapLeafTypes[name]
	if !ok {
		return True
	}
	depth := 1
	if strings.HasPrefix(name, "E|") {
		depth = 2
	}
	if strings.HasPrefix(name, "G|") {
		return True
	}
	var ref func(Term) Term
	switch under(t).(type) {
	case *types.Pointer:
		ref = func(x Term) Term { return x }
	case *types.Slice:
		ref = SlArr
	default:
		return True
	}
	var bs []Bound
	cur := h
	for i := 0; i < depth; i++ {
		n := fmt.Sprintf("y%d?", i)
		bs = append(bs, Bound{n, SInt})
		if !cur.Sort.IsArray() {
			return True
		}
		cur = Select(cur, Var(n, SInt))
	}
	// only cells of objects that existed at entry: cells at or above top are unconstrained (later allocations live there)
	return ForallPat(bs, Implies(Lt(Var("y0?", SInt), top), And(Le(IntLit(0), ref(cur)), Lt(ref(cur), top))), [][]Term{{cur}})
}

// heapRangeAxiom: every value stored in a heap of sized integers lies in the type's range
// (an invariant of well-typed Go memory, needed when heap cells are read under quantifiers).
func heapRangeAxiom(name string, h Term) Term {
	t, ok := heapLeafTypes[name]
	if !ok {
		return True
	}
	depth := 1
	if strings.HasPrefix(name, "E|") {
		depth = 2
	}
	if a, isArr := under(t).(*types.Array); isArr {
		t = a.Elem()
		depth++
	}
	lo, hi, bounded, uns := intRange(t)
	if !bounded && !uns {
		return True
	}
	var bs []Bound
	cur := h
	for i := 0; i < depth; i++ {
		n := fmt.Sprintf("x%d?", i)
		bs = append(bs, Bound{n, SInt})
		if !cur.Sort.IsArray() {
			return True
		}
		cur = Select(cur, Var(n, SInt))
	}
	if cur.Sort != SInt {
		return True
	}
	body := Le(IntLit(0), cur)
	if bounded {
		body = And(Le(IntLit(lo), cur), Le(cur, IntLit(hi)))
	}
	return ForallPat(bs, body, [][]Term{{cur}})
}

// ---- memory access ----

// typeAt returns the type designated by the pointer (after its steps).
func (p PtrV) pointee() types.Type {
	t := p.RootTy
	for _, s := range p.Steps {
		if s.Field >= 0 {
			t = under(t).(*types.Struct).Field(s.Field).Type()
		} else {
			t = under(t).(*types.Array).Elem()
		}
	}
	return t
}

func (p PtrV) withStep(s Step, ty types.Type) PtrV {
	q := p
	q.Steps = append(append([]Step(nil), p.Steps...), s)
	q.Ty = ty
	return q
}

// splitSteps separates leading field steps from trailing array-index steps.
func splitSteps(steps []Step) (path []int, idxs []Term, err error) {
	i := 0
	for ; i < len(steps) && steps[i].Field >= 0; i++ {
		path = append(path, steps[i].Field)
	}
	for ; i < len(steps); i++ {
		if steps[i].Field >= 0 {
			return nil, nil, unsupported("field access inside an array element")
		}
		idxs = append(idxs, steps[i].Idx)
	}
	return path, idxs, nil
}

func selectPath(base Term, idxs []Term) Term {
	for _, i := range idxs {
		base = Select(base, i)
	}
	return base
}

func storePath(base Term, idxs []Term, v Term) Term {
	if len(idxs) == 0 {
		return v
	}
	inner := storePath(Select(base, idxs[0]), idxs[1:], v)
	return Store(base, idxs[0], inner)
}

// arrayObject rewrites a pointer into a free-standing array object (element-heap row) as an element pointer.
func arrayObject(p PtrV) (PtrV, bool) {
	if p.Kind != rootRef {
		return p, false
	}
	arr, ok := under(p.RootTy).(*types.Array)
	if !ok || len(p.Steps) == 0 || p.Steps[0].Field >= 0 {
		return p, false
	}
	n := IntLit(arr.Len())
	q := PtrV{Ty: p.Ty, Kind: rootElem, Slice: MkSlice(p.Ref, IntLit(0), n, n), Idx: p.Steps[0].Idx, RootTy: arr.Elem()}
	q.Steps = append([]Step(nil), p.Steps[1:]...)
	return q, true
}

func (ex *Exec) load(p PtrV, st *State) Val {
	if q, ok := arrayObject(p); ok {
		p = q
	} else if arr, isArr := under(p.RootTy).(*types.Array); isArr && p.Kind == rootRef && len(p.Steps) == 0 && !isStruct(arr.Elem()) {
		// the whole array: the row of the element heap
		name, _ := elemHeap(arr.Elem(), nil)
		h := st.heap(name, ArraySort(ArraySort(sortOf(arr.Elem()))))
		return Scalar{ex.vc.define("row", Select(h, p.Ref)), p.RootTy}
	}
	t := p.pointee()
	if isStruct(t) {
		s := under(t).(*types.Struct)
		out := StructV{Ty: t, F: make([]Val, s.NumFields())}
		for i := 0; i < s.NumFields(); i++ {
			out.F[i] = ex.load(p.withStep(Step{Field: i}, nil), st)
		}
		return out
	}
	if p.Kind == rootLocal {
		v, ok := st.locals[p.Alloc]
		if !ok {
			v = ex.zeroVal(p.RootTy)
		}
		for _, s := range p.Steps {
			if s.Field >= 0 {
				v = v.(StructV).F[s.Field]
			} else {
				sc := ex.scalar(v)
				v = Scalar{Select(sc, s.Idx), under(v.GoType()).(*types.Array).Elem()}
			}
		}
		return v
	}
	path, idxs, err := splitSteps(p.Steps)
	if err != nil {
		panic(err)
	}
	var base Term
	hst := st
	if p.Kind == rootRef && ex.entryState != nil && (strings.HasPrefix(p.Ref.S, "g!") || strings.HasPrefix(p.Ref.S, "|g!")) {
		// package-level variables keep their initial values (stores to them are rejected): read the entry heap,
		// so that havocs caused by unspecified callees do not forget them
		hst = ex.entryState
		ex.vc.Assumptions["package-level variables are not modified after initialisation"] = true
	}
	switch p.Kind {
	case rootRef:
		if isStruct(p.RootTy) {
			name, lt := fieldHeap(p.RootTy, path)
			h := hst.heap(name, ArraySort(sortOf(lt)))
			base = Select(h, p.Ref)
		} else {
			h := hst.heap(cellHeap(p.RootTy), ArraySort(sortOf(p.RootTy)))
			base = Select(h, p.Ref)
		}
	case rootElem:
		name, lt := elemHeap(p.RootTy, path)
		h := st.heap(name, ArraySort(ArraySort(sortOf(lt))))
		base = Select(Select(h, SlArr(p.Slice)), At(p.Slice, p.Idx))
		if e, ok := ex.fwd[h.S]; ok && len(idxs) == 0 && e.arr == SlArr(p.Slice).S && e.pos == At(p.Slice, p.Idx).S {
			return Scalar{e.val, t}
		}
	}
	r := selectPath(base, idxs)
	r = ex.vc.define("ld", r)
	isGlobal := p.Kind == rootRef && (strings.HasPrefix(p.Ref.S, "g!") || strings.HasPrefix(p.Ref.S, "|g!"))
	if ex.entryState != nil && (isGlobal || strings.Contains(base.S, "@0") && maxSymNum(base.S) == 0) {
		// read from the entry heap: whatever reference is stored there existed at function entry
		ex.typeFacts(r, t, ex.entryState)
	} else {
		ex.typeFacts(r, t, st)
	}
	return Scalar{r, t}
}

func (ex *Exec) store(p PtrV, v Val, st *State) {
	if q, ok := arrayObject(p); ok {
		p = q
	} else if arr, isArr := under(p.RootTy).(*types.Array); isArr && p.Kind == rootRef && len(p.Steps) == 0 && !isStruct(arr.Elem()) {
		name, _ := elemHeap(arr.Elem(), nil)
		srt := ArraySort(ArraySort(sortOf(arr.Elem())))
		h := st.heap(name, srt)
		nh := ex.vc.fresh(name, srt)
		ex.vc.assume(Eq(nh, Store(h, p.Ref, ex.scalar(v))))
		st.heaps[name] = nh
		return
	}
	t := p.pointee()
	if isStruct(t) {
		s := under(t).(*types.Struct)
		sv, ok := v.(StructV)
		if !ok {
			panic(unsupported("store of non-struct value into struct location"))
		}
		for i := 0; i < s.NumFields(); i++ {
			ex.store(p.withStep(Step{Field: i}, nil), sv.F[i], st)
		}
		return
	}
	if p.Kind == rootLocal {
		cur, ok := st.locals[p.Alloc]
		if !ok {
			cur = ex.zeroVal(p.RootTy)
		}
		st.locals[p.Alloc] = ex.updateVal(cur, p.Steps, v)
		return
	}
	path, idxs, err := splitSteps(p.Steps)
	if err != nil {
		panic(err)
	}
	sv := ex.scalar(v)
	if p.Kind == rootRef && (strings.HasPrefix(p.Ref.S, "g!") || strings.HasPrefix(p.Ref.S, "|g!")) {
		panic(unsupported("store to a package-level variable"))
	}
	switch p.Kind {
	case rootRef:
		var name string
		var srt Sort
		if isStruct(p.RootTy) {
			var lt types.Type
			name, lt = fieldHeap(p.RootTy, path)
			srt = ArraySort(sortOf(lt))
		} else {
			name = cellHeap(p.RootTy)
			srt = ArraySort(sortOf(p.RootTy))
		}
		h := st.heap(name, srt)
		nv := storePath(Select(h, p.Ref), idxs, sv)
		nh := ex.vc.fresh(name, srt)
		ex.vc.assume(Eq(nh, Store(h, p.Ref, nv)))
		st.heaps[name] = nh
	case rootElem:
		name, lt := elemHeap(p.RootTy, path)
		srt := ArraySort(ArraySort(sortOf(lt)))
		h := st.heap(name, srt)
		arr := SlArr(p.Slice)
		pos := At(p.Slice, p.Idx)
		row := Select(h, arr)
		nv := storePath(Select(row, pos), idxs, sv)
		nh := ex.vc.fresh(name, srt)
		ex.vc.assume(Eq(nh, Store(h, arr, Store(row, pos, nv))))
		st.heaps[name] = nh
		if len(idxs) == 0 {
			// remember what this heap version holds at the written cell: a load of the same cell from the same
			// version yields the stored term itself (keeps a syntactically known dynamic type of interfaces)
			if ex.fwd == nil {
				ex.fwd = map[string]fwdEntry{}
			}
			ex.fwd[nh.S] = fwdEntry{arr.S, pos.S, sv}
		}
		ex.mirrorView(arr, name, st)
	}
}

type fwdEntry struct {
	arr, pos string
	val      Term
}

// mirrorView propagates a write through a slice view of an array-typed field back to the field.
func (ex *Exec) mirrorView(arr Term, heapName string, st *State) {
	place, ok := ex.views[arr.S]
	if !ok {
		return
	}
	a := under(place.pointee()).(*types.Array)
	name, _ := elemHeap(a.Elem(), nil)
	if name != heapName {
		return
	}
	h := st.heap(name, ArraySort(ArraySort(sortOf(a.Elem()))))
	ex.storeTracked(place, Scalar{ex.vc.define("row", Select(h, arr)), place.pointee()}, st)
}

func (ex *Exec) updateVal(cur Val, steps []Step, v Val) Val {
	if len(steps) == 0 {
		return v
	}
	s := steps[0]
	if s.Field >= 0 {
		sv := cur.(StructV)
		nf := append([]Val(nil), sv.F...)
		nf[s.Field] = ex.updateVal(sv.F[s.Field], steps[1:], v)
		return StructV{Ty: sv.Ty, F: nf}
	}
	sc := cur.(Scalar)
	elemTy := under(sc.Ty).(*types.Array).Elem()
	inner := ex.updateVal(Scalar{Select(sc.T, s.Idx), elemTy}, steps[1:], v)
	return Scalar{ex.vc.define("arr", Store(sc.T, s.Idx, ex.scalar(inner))), sc.Ty}
}

// scalar extracts the SMT term of a scalar value (pointers become refs).
func (ex *Exec) scalar(v Val) Term {
	switch x := v.(type) {
	case Scalar:
		return x.T
	case PtrV:
		if x.Kind == rootRef && len(x.Steps) == 0 {
			return x.Ref
		}
		if arr, ok := under(x.pointee()).(*types.Array); ok && ex.curState != nil && !isStruct(arr.Elem()) {
			return ex.arrayBacking(x, arr, ex.curState)
		}
		if x.Kind != rootLocal && ex.curState != nil {
			// an interior pointer handed to code we do not model (boxed into an interface, passed to a library
			// function): an opaque non-nil reference; what is done through it must be stated by the callee's contract
			r := ex.vc.fresh("iptr", SInt)
			ex.vc.assume(And(Gt(r, IntLit(0)), Lt(r, ex.curState.top)))
			ex.vc.Unmodelled["interior pointer ("+shortType(x.Ty)+") passed as an opaque value"] = true
			return r
		}
		panic(unsupported("interior or local pointer used as a first-class value (%s)", shortType(x.Ty)))
	case FuncV:
		return IntLit(int64(1000000 + len(x.Fn.Name())))
	case ParamFuncV:
		return IntLit(999999)
	}
	panic(unsupported("aggregate used where a scalar is needed (%T)", v))
}

func (ex *Exec) asPtr(v Val) PtrV {
	switch x := v.(type) {
	case PtrV:
		return x
	case Scalar:
		pt, ok := under(x.Ty).(*types.Pointer)
		if !ok {
			panic(unsupported("pointer operation on %s", shortType(x.Ty)))
		}
		return PtrV{Ty: x.Ty, Kind: rootRef, Ref: x.T, RootTy: pt.Elem()}
	}
	panic(unsupported("pointer operation on %T", v))
}

// zeroVal is the Go zero value of a type.
func (ex *Exec) zeroVal(t types.Type) Val {
	switch u := under(t).(type) {
	case *types.Struct:
		out := StructV{Ty: t, F: make([]Val, u.NumFields())}
		for i := range out.F {
			out.F[i] = ex.zeroVal(u.Field(i).Type())
		}
		return out
	case *types.Array:
		return Scalar{zeroTerm(sortOf(t)), t}
	}
	return Scalar{zeroTerm(sortOf(t)), t}
}

func zeroTerm(s Sort) Term {
	switch s {
	case SInt:
		return IntLit(0)
	case SBool:
		return False
	case SReal:
		return Term{"0.0", SReal}
	case SSlice:
		return NilSlice
	case SIface:
		return NilIface
	case SStr:
		return emptyStr
	}
	if s.IsArray() {
		return Term{fmt.Sprintf("((as const %s) %s)", s, zeroTerm(s.Elem()).S), s}
	}
	panic("no zero for sort " + string(s))
}

var emptyStr = MkStr(Term{"((as const (Array Int Int)) 0)", ArraySort(SInt)}, IntLit(0), IntLit(0))

// typeFacts asserts the invariants every well-typed Go value satisfies.
func (ex *Exec) typeFacts(t Term, ty types.Type, st *State) {
	if strings.Contains(t.S, "?") {
		return // under a quantifier: the binder carries the range guard
	}
	if f := ex.typeFactTerm(t, ty, st); !f.IsTrue() {
		if ex.vc.factCache == nil {
			ex.vc.factCache = map[string]bool{}
		}
		if ex.vc.factCache[f.S] && ex.dry == 0 {
			return
		}
		if ex.dry == 0 {
			ex.vc.factCache[f.S] = true
		}
		ex.vc.assume(f)
	}
}

func (ex *Exec) typeFactTerm(t Term, ty types.Type, st *State) Term {
	switch u := under(ty).(type) {
	case *types.Basic:
		if lo, hi, bounded, uns := intRange(ty); bounded {
			return And(Le(IntLit(lo), t), Le(t, IntLit(hi)))
		} else if uns {
			return Le(IntLit(0), t)
		}
		if u.Info()&types.IsString != 0 {
			return And(Le(IntLit(0), StrLen(t)), Le(IntLit(0), StrOff(t)))
		}
	case *types.Pointer, *types.Map, *types.Chan:
		if st != nil {
			return And(Le(IntLit(0), t), Lt(t, st.top))
		}
		return Le(IntLit(0), t)
	case *types.Slice:
		f := And(Le(IntLit(0), SlOff(t)), Le(IntLit(0), SlLen(t)), Le(SlLen(t), SlCap(t)), Le(IntLit(0), SlArr(t)),
			Implies(Eq(SlArr(t), IntLit(0)), Eq(SlCap(t), IntLit(0))))
		if st != nil {
			f = And(f, Lt(SlArr(t), st.top))
		}
		return f
	case *types.Interface:
		f := And(Le(IntLit(0), IfDyn(t)), Implies(Eq(IfDyn(t), IntLit(0)), Eq(IfVal(t), IntLit(0))))
		if st != nil {
			f = And(f, Lt(IfVal(t), st.top))
		}
		if u.NumMethods() > 0 && !strings.Contains(t.S, "?") {
			// a non-nil value of interface type T has a dynamic type that implements T
			ex.noteIface(ty)
			f = And(f, Implies(Neq(IfDyn(t), IntLit(0)), ex.implementsTerm(IfDyn(t), ty)))
		}
		return f
	}
	return True
}

// freshVal makes an unconstrained value of the given type (with type facts).
func (ex *Exec) freshVal(hint string, t types.Type, st *State) Val {
	switch u := under(t).(type) {
	case *types.Struct:
		out := StructV{Ty: t, F: make([]Val, u.NumFields())}
		for i := range out.F {
			out.F[i] = ex.freshVal(hint+"."+u.Field(i).Name(), u.Field(i).Type(), st)
		}
		return out
	case *types.Tuple:
		tv := TupleV{}
		for i := 0; i < u.Len(); i++ {
			tv.E = append(tv.E, ex.freshVal(fmt.Sprintf("%s.%d", hint, i), u.At(i).Type(), st))
		}
		return tv
	}
	c := ex.vc.fresh(hint, sortOf(t))
	ex.typeFacts(c, t, st)
	return Scalar{c, t}
}

// alloc returns a fresh reference.
func (ex *Exec) allocRef(hint string, st *State) Term {
	r := ex.vc.fresh(hint, SInt)
	ex.vc.assume(Eq(r, st.top))
	ex.vc.assume(Gt(r, IntLit(0)))
	st.top = ex.vc.define("top", Add(st.top, IntLit(1)))
	return r
}

// merge joins states along edges with the given (mutually exclusive) conditions.
func (ex *Exec) merge(states []*State, conds []Term) *State {
	if len(states) == 1 {
		return states[0].clone()
	}
	out := &State{locals: map[*ssa.Alloc]Val{}, iters: map[ssa.Value]Term{}, heaps: map[string]Term{}}
	// locals
	seen := map[*ssa.Alloc]bool{}
	var allocs []*ssa.Alloc
	for _, s := range states {
		for a := range s.locals {
			if !seen[a] {
				seen[a] = true
				allocs = append(allocs, a)
			}
		}
	}
	sort.Slice(allocs, func(i, j int) bool {
		return allocs[i].Pos() < allocs[j].Pos() || allocs[i].Pos() == allocs[j].Pos() && allocs[i].Name() < allocs[j].Name()
	})
	for _, a := range allocs {
		var vs []Val
		var cs []Term
		for i, s := range states {
			if v, ok := s.locals[a]; ok {
				vs = append(vs, v)
				cs = append(cs, conds[i])
			}
		}
		out.locals[a] = ex.mergeVals(a.Comment, vs, cs)
	}
	// iters
	for _, s := range states {
		for k := range s.iters {
			if _, done := out.iters[k]; done {
				continue
			}
			var vs []Val
			var cs []Term
			for i, s2 := range states {
				if v, ok := s2.iters[k]; ok {
					vs = append(vs, Scalar{v, types.Typ[types.Int]})
					cs = append(cs, conds[i])
				}
			}
			out.iters[k] = ex.scalar(ex.mergeVals("iter", vs, cs))
		}
	}
	// heaps: union of the names any predecessor has touched
	names := map[string]Sort{}
	for _, s := range states {
		for n, t := range s.heaps {
			names[n] = t.Sort
		}
	}
	var ns []string
	for n := range names {
		ns = append(ns, n)
	}
	sort.Strings(ns)
	for _, n := range ns {
		var vs []Val
		for _, s := range states {
			vs = append(vs, Scalar{s.heap(n, names[n]), nil})
		}
		out.heaps[n] = ex.scalar(ex.mergeVals(n, vs, conds))
	}
	preds := states
	pconds := conds
	out.origin = func(name string, sort Sort) Term {
		var vs []Val
		for _, s := range preds {
			vs = append(vs, Scalar{s.heap(name, sort), nil})
		}
		return ex.scalar(ex.mergeVals(name, vs, pconds))
	}
	var tops []Val
	for _, s := range states {
		tops = append(tops, Scalar{s.top, nil})
	}
	out.top = ex.scalar(ex.mergeVals("top", tops, conds))
	return out
}

func (ex *Exec) mergeVals(hint string, vs []Val, conds []Term) Val {
	if len(vs) == 0 {
		panic("mergeVals: nothing to merge")
	}
	switch v0 := vs[0].(type) {
	case Scalar:
		same := true
		for _, v := range vs[1:] {
			s, ok := v.(Scalar)
			if !ok {
				// a pointer merged with a scalar ref
				same = false
				break
			}
			if s.T.S != v0.T.S {
				same = false
			}
		}
		if same {
			return v0
		}
		if v0.T.Sort == SIface {
			// interface values of one known dynamic type (or nil): merge the payloads, keep the type visible (narrowing)
			var dyns []Term
			var payloads []Val
			okAll := true
			var sole int64
			for _, v := range vs {
				s, isSc := v.(Scalar)
				if !isSc {
					okAll = false
					break
				}
				h, a := splitApp(s.T.S)
				if h != "mk-iface" || len(a) != 2 {
					okAll = false
					break
				}
				id, _, ok := soleDyn(a[0])
				if !ok || (id != 0 && sole != 0 && id != sole) {
					okAll = false
					break
				}
				if id != 0 {
					sole = id
				}
				dyns = append(dyns, Term{a[0], SInt})
				payloads = append(payloads, Scalar{Term{a[1], SInt}, nil})
			}
			if okAll && sole != 0 {
				p := ex.scalar(ex.mergeVals(hint, payloads, conds))
				d := dyns[len(dyns)-1]
				for i := len(dyns) - 2; i >= 0; i-- {
					if dyns[i].S != d.S {
						d = App(SInt, "ite", conds[i], dyns[i], d)
					}
				}
				return Scalar{MkIface(d, p), v0.Ty}
			}
		}
		if hint == "" {
			hint = "m"
		}
		if srt := v0.T.Sort; srt.IsArray() {
			// arrays (heaps) are merged pointwise: an if-then-else between whole arrays makes the solvers
			// reason about array equality, which they do badly
			c := ex.vc.fresh(hint, srt)
			var bs []Bound
			sel := func(t Term) Term { return t }
			depth := 1
			if srt.Elem().IsArray() {
				depth = 2
			}
			var idx []Term
			for d := 0; d < depth; d++ {
				n := fmt.Sprintf("m%d?", d)
				bs = append(bs, Bound{n, SInt})
				idx = append(idx, Var(n, SInt))
			}
			sel = func(t Term) Term {
				for _, ix := range idx {
					t = Select(t, ix)
				}
				return t
			}
			acc := sel(ex.scalar(vs[len(vs)-1]))
			for i := len(vs) - 2; i >= 0; i-- {
				acc = Ite(conds[i], sel(ex.scalar(vs[i])), acc)
			}
			ex.vc.assume(ForallPat(bs, Eq(sel(c), acc), [][]Term{{sel(c)}}))
			return Scalar{c, v0.Ty}
		}
		acc := ex.scalar(vs[len(vs)-1])
		for i := len(vs) - 2; i >= 0; i-- {
			acc = Ite(conds[i], ex.scalar(vs[i]), acc)
		}
		c := ex.vc.fresh(hint, acc.Sort)
		ex.vc.assume(Eq(c, acc))
		return Scalar{c, v0.Ty}
	case StructV:
		out := StructV{Ty: v0.Ty, F: make([]Val, len(v0.F))}
		for i := range v0.F {
			var fs []Val
			for _, v := range vs {
				fs = append(fs, v.(StructV).F[i])
			}
			out.F[i] = ex.mergeVals(hint, fs, conds)
		}
		return out
	case TupleV:
		out := TupleV{E: make([]Val, len(v0.E))}
		for i := range v0.E {
			var fs []Val
			for _, v := range vs {
				fs = append(fs, v.(TupleV).E[i])
			}
			out.E[i] = ex.mergeVals(hint, fs, conds)
		}
		return out
	case PtrV:
		allSame := true
		for _, v := range vs[1:] {
			p, ok := v.(PtrV)
			if !ok || !samePtr(p, v0) {
				allSame = false
			}
		}
		if allSame {
			return v0
		}
		var ss []Val
		for _, v := range vs {
			ss = append(ss, Scalar{ex.scalar(v), v0.Ty})
		}
		return ex.mergeVals(hint, ss, conds)
	case FuncV:
		for _, v := range vs[1:] {
			f, ok := v.(FuncV)
			if !ok || f.Fn != v0.Fn {
				panic(unsupported("merging different function values"))
			}
		}
		return v0
	case ParamFuncV:
		return v0
	}
	panic(fmt.Sprintf("mergeVals: unexpected %T", vs[0]))
}

func samePtr(a, b PtrV) bool {
	if a.Kind != b.Kind || a.Alloc != b.Alloc || a.Ref.S != b.Ref.S || a.Slice.S != b.Slice.S || a.Idx.S != b.Idx.S || len(a.Steps) != len(b.Steps) {
		return false
	}
	for i := range a.Steps {
		if a.Steps[i].Field != b.Steps[i].Field || a.Steps[i].Idx.S != b.Steps[i].Idx.S {
			return false
		}
	}
	return true
}

// bump replaces the given heaps (or all, when names is nil) by fresh versions.
// keep(name, old, new) may return a frame assumption relating the versions.
func (ex *Exec) bump(st *State, names map[string]bool, keep func(name string, old, new Term) Term) {
	prev := st.clone()
	if names == nil {
		for n, old := range prev.heaps {
			nh := ex.vc.fresh(n, old.Sort)
			if keep != nil {
				ex.vc.assume(keep(n, old, nh))
			}
			st.heaps[n] = nh
		}
		st.origin = func(name string, sort Sort) Term {
			old := prev.heap(name, sort)
			nh := ex.vc.fresh(name, sort)
			if keep != nil {
				ex.vc.assume(keep(name, old, nh))
			}
			return nh
		}
		return
	}
	var ns []string
	for n := range names {
		ns = append(ns, n)
	}
	sort.Strings(ns)
	for _, n := range ns {
		old, ok := prev.heaps[n]
		if !ok {
			// not touched yet: create lazily through origin below
			delete(st.heaps, n)
			continue
		}
		nh := ex.vc.fresh(n, old.Sort)
		if keep != nil {
			ex.vc.assume(keep(n, old, nh))
		}
		st.heaps[n] = nh
	}
	st.origin = func(name string, sort Sort) Term {
		old := prev.heap(name, sort)
		if !names[name] {
			return old
		}
		nh := ex.vc.fresh(name, sort)
		if keep != nil {
			ex.vc.assume(keep(name, old, nh))
		}
		return nh
	}
}
