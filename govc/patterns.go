package main

import (
	"sort"
	"strings"
)

// Trigger inference for universally quantified formulas. Left alone, the solvers
// pick triggers such as a[k-1] that instantiate themselves forever (matching loops);
// we choose array reads / function applications in which every bound variable
// occurs plainly (as the variable itself or as base+variable).

type sx struct {
	atom string
	kids []*sx
}

func parseSx(s string) *sx {
	p := 0
	var rec func() *sx
	rec = func() *sx {
		for p < len(s) && s[p] == ' ' {
			p++
		}
		if p >= len(s) {
			return nil
		}
		if s[p] == '(' {
			p++
			n := &sx{}
			for {
				for p < len(s) && s[p] == ' ' {
					p++
				}
				if p >= len(s) {
					return n
				}
				if s[p] == ')' {
					p++
					return n
				}
				k := rec()
				if k == nil {
					return n
				}
				n.kids = append(n.kids, k)
			}
		}
		start := p
		if s[p] == '|' {
			p++
			for p < len(s) && s[p] != '|' {
				p++
			}
			p++
		} else {
			for p < len(s) && s[p] != ' ' && s[p] != '(' && s[p] != ')' {
				p++
			}
		}
		return &sx{atom: s[start:p]}
	}
	return rec()
}

func (n *sx) String() string {
	if n.kids == nil && n.atom != "" {
		return n.atom
	}
	var parts []string
	for _, k := range n.kids {
		parts = append(parts, k.String())
	}
	return "(" + strings.Join(parts, " ") + ")"
}

func (n *sx) head() string {
	if len(n.kids) > 0 && n.kids[0].kids == nil {
		return n.kids[0].atom
	}
	return ""
}

func (n *sx) vars(bound map[string]bool, out map[string]bool) {
	if n.kids == nil {
		if bound[n.atom] {
			out[n.atom] = true
		}
		return
	}
	for _, k := range n.kids {
		k.vars(bound, out)
	}
}

func (n *sx) hasQuant() bool {
	if h := n.head(); h == "forall" || h == "exists" {
		return true
	}
	for _, k := range n.kids {
		if k.hasQuant() {
			return true
		}
	}
	return false
}

var interpreted = map[string]bool{"+": true, "-": true, "*": true, "div": true, "mod": true, "abs": true, "<": true, "<=": true, ">": true, ">=": true,
	"=": true, "and": true, "or": true, "not": true, "=>": true, "ite": true, "store": true, "to_real": true, "to_int": true, "/": true, "distinct": true, "!": true, "let": true}

// plainOccurrences: every bound variable inside n appears only as itself or as (+ X v) / (+ v X) with X free of bound variables,
// directly as an argument of select / an uninterpreted function.
func plainIndex(n *sx, bound map[string]bool) bool {
	if n.kids == nil {
		return true
	}
	vs := map[string]bool{}
	n.vars(bound, vs)
	if len(vs) == 0 {
		return true
	}
	switch n.head() {
	case "+":
		if len(n.kids) != 3 {
			return false
		}
		a, b := n.kids[1], n.kids[2]
		av, bv := map[string]bool{}, map[string]bool{}
		a.vars(bound, av)
		b.vars(bound, bv)
		if len(av) == 0 && b.kids == nil {
			return true
		}
		if len(bv) == 0 && a.kids == nil {
			return true
		}
		return false
	}
	if interpreted[n.head()] {
		return false
	}
	// nested application (e.g. select inside select, accessor): all arguments must be plain
	for _, k := range n.kids[1:] {
		if !plainIndex(k, bound) {
			return false
		}
	}
	return true
}

func collectCandidates(n *sx, bound map[string]bool, out *[]*sx) {
	if n == nil || n.kids == nil {
		return
	}
	h := n.head()
	if h == "forall" || h == "exists" {
		return // inner quantifiers get their own triggers
	}
	if h != "" && !interpreted[h] && len(n.kids) > 1 {
		vs := map[string]bool{}
		n.vars(bound, vs)
		if len(vs) > 0 && !n.hasQuant() {
			ok := true
			for _, k := range n.kids[1:] {
				if !plainIndex(k, bound) {
					ok = false
				}
			}
			if ok {
				*out = append(*out, n)
				// still descend: smaller candidates may cover other variables
			}
		}
	}
	for _, k := range n.kids {
		collectCandidates(k, bound, out)
	}
}

// inferPatterns returns trigger annotations (each a multi-pattern) for forall over the given variables.
func inferPatterns(bs []Bound, body string) []string {
	bound := map[string]bool{}
	for _, b := range bs {
		bound[quoteSym(b.Name)] = true
	}
	tree := parseSx(body)
	if tree == nil {
		return nil
	}
	var cands []*sx
	collectCandidates(tree, bound, &cands)
	if len(cands) == 0 {
		return nil
	}
	// dedupe, drop candidates that contain another candidate with the same variable set (keep the outermost is too specific; keep smallest)
	type cand struct {
		s    string
		vars map[string]bool
	}
	seen := map[string]bool{}
	var cs []cand
	for _, c := range cands {
		s := c.String()
		if seen[s] {
			continue
		}
		seen[s] = true
		vs := map[string]bool{}
		c.vars(bound, vs)
		cs = append(cs, cand{s, vs})
	}
	// prefer candidates covering all variables on their own
	var full []cand
	for _, c := range cs {
		if len(c.vars) == len(bound) {
			full = append(full, c)
		}
	}
	sort.SliceStable(full, func(i, j int) bool { return len(full[i].s) < len(full[j].s) })
	// drop a full candidate that strictly contains another full candidate (the inner one is more general)
	var keep []cand
	for i, c := range full {
		contains := false
		for j, d := range full {
			if i != j && len(d.s) < len(c.s) && strings.Contains(c.s, d.s) {
				contains = true
			}
		}
		if !contains {
			keep = append(keep, c)
		}
	}
	// frame-like axioms relate two versions of a heap: trigger only on reads of the newest version,
	// otherwise instances flow in both directions and multiply
	best := map[string]int{}
	for _, c := range keep {
		if base, ver, ok := heapOfSelect(c.s); ok {
			if v, seen := best[base]; !seen || ver > v {
				best[base] = ver
			}
		}
	}
	var keep2 []cand
	for _, c := range keep {
		if base, ver, ok := heapOfSelect(c.s); ok && ver < best[base] {
			continue
		}
		keep2 = append(keep2, c)
	}
	keep = keep2
	var pats []string
	for _, c := range keep {
		pats = append(pats, "("+c.s+")")
		if len(pats) >= 4 {
			break
		}
	}
	if len(pats) > 0 {
		return pats
	}
	// multi-pattern: greedy cover
	covered := map[string]bool{}
	var multi []string
	sort.SliceStable(cs, func(i, j int) bool {
		if len(cs[i].vars) != len(cs[j].vars) {
			return len(cs[i].vars) > len(cs[j].vars)
		}
		return len(cs[i].s) < len(cs[j].s)
	})
	for _, c := range cs {
		adds := false
		for v := range c.vars {
			if !covered[v] {
				adds = true
			}
		}
		if adds {
			multi = append(multi, c.s)
			for v := range c.vars {
				covered[v] = true
			}
		}
	}
	if len(covered) == len(bound) {
		return []string{"(" + strings.Join(multi, " ") + ")"}
	}
	return nil
}

// heapOfSelect extracts the heap symbol read by a (possibly nested) select term: its base name and version.
func heapOfSelect(s string) (base string, ver int, ok bool) {
	for strings.HasPrefix(s, "(select ") {
		s = s[len("(select "):]
	}
	end := 0
	if strings.HasPrefix(s, "|") {
		end = strings.Index(s[1:], "|") + 2
	} else {
		end = strings.IndexAny(s, " )")
	}
	if end <= 0 {
		return "", 0, false
	}
	sym := strings.Trim(s[:end], "|")
	if !(strings.HasPrefix(sym, "E!") || strings.HasPrefix(sym, "F!") || strings.HasPrefix(sym, "H!") || strings.HasPrefix(sym, "G!")) {
		return "", 0, false
	}
	if strings.HasSuffix(sym, "@0") {
		return strings.TrimSuffix(sym, "@0"), 0, true
	}
	if i := strings.LastIndex(sym, "!"); i > 0 {
		n := 0
		for _, c := range sym[i+1:] {
			if c < '0' || c > '9' {
				return "", 0, false
			}
			n = n*10 + int(c-'0')
		}
		return sym[:i], n, true
	}
	return "", 0, false
}
