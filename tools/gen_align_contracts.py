#!/usr/bin/env python3
# Generates the kernel contracts of /repo/align/verif_contracts.go (the kernels are template-generated, so are their contracts).
import sys
KEEP = "ref(index) == idxRef(alpha) && let == len(a) && let >= alphaLen(alpha) && len(la) == let * let && index != nil && (forall b int :: 0 <= b && b < 256 ==> index[b] == lidx(alpha, b)) && (forall k int :: 0 <= k && k < len(a) ==> len(a[k]) == let)"
RV = "(forall k int :: 0 <= k && k < len(rSeq) ==> lidx(alpha, rSeq[k]) >= 0)"
QV = "(forall k int :: 0 <= k && k < len(qSeq) ==> lidx(alpha, qSeq[k]) >= 0)"
VALID = RV + " && " + QV
DIMS = "r == len(rSeq) + 1 && c == len(qSeq) + 1 && len(table) == r * c && fresh(table)"
ALN = "(arr(aln) == 0 && cap(aln) == 0) || (fresh(aln) && allocated(aln))"
# every reported pair is an ungapped block or a gap in exactly one sequence (or empty): the segment being traced
# has moved equally in both sequences (diag), only in the reference (up) or only in the query (left)
SHAPE = "0 <= i && 0 <= j && i <= maxI && j <= maxJ && (last == 0 ==> maxI - i == maxJ - j) && (last == 1 ==> maxJ == j) && (last == 2 ==> maxI == i) && 0 <= last && last <= 2 && (i == r - 1 && j == c - 1 ==> maxI == i && maxJ == j) && maxI < r && maxJ < c"
PAIRS = "forall k int :: 0 <= k && k < len(aln) ==> wfPair(aln[k], len(rSeq), len(qSeq))"
ENSPAIRS = "//@   ensures [pairs] result1 == nil ==> forall k int :: 0 <= k && k < len(result0) ==> wfPair(result0[k], len(rSeq), len(qSeq))\n"
LOOP1 = "0 <= idx && idx <= len(a) && let == len(a) && let >= alphaLen(alpha) && len(la) == idx * let && cap(la) >= let * let && fresh(la) && forall k int :: 0 <= k && k < idx ==> len(a[k]) == let"
ENS = ENSPAIRS + '''//@   ensures [illegal-reference] (exists k int :: 0 <= k && k < len(rSeq) && lidx(alpha, rSeq[k]) < 0) ==> result1 != nil
//@   ensures [illegal-query]     (exists k int :: 0 <= k && k < len(qSeq) && lidx(alpha, qSeq[k]) < 0) ==> result1 != nil
//@   ensures [undersized]        len(a) < alphaLen(alpha) ==> result1 != nil
//@   ensures [ragged]            (exists k int :: 0 <= k && k < len(a) && len(a[k]) != len(a)) ==> result1 != nil
'''
def nw(recv, fn):
    return f'''//@ func ({recv}).{fn}
//@   property C09
//@   maypanic
//@   requires alpha != nil && allocated(idxRef(alpha))
{ENS}//@   ensures [spans] result1 == nil ==> len(result0) > 0 && result0[0].(*featPair).a.start == 0 && result0[0].(*featPair).b.start == 0 && result0[len(result0)-1].(*featPair).a.end == len(rSeq) && result0[len(result0)-1].(*featPair).b.end == len(qSeq)
//@   loop 1 invariant {LOOP1}
//@   loop 2 invariant 0 <= idx && idx <= len(rSeq) && {KEEP} && forall k int :: 0 <= k && k < idx ==> lidx(alpha, rSeq[k]) >= 0
//@   loop 3 invariant 0 <= idx && idx <= len(qSeq) && {KEEP} && {RV} && forall k int :: 0 <= k && k < idx ==> lidx(alpha, qSeq[k]) >= 0
//@   loop 4 invariant 0 <= idx && idx <= c - 1 && {KEEP} && {VALID} && {DIMS}
//@   loop 5 invariant 1 <= i && i <= r && {KEEP} && {VALID} && {DIMS}
//@   loop 6 invariant 1 <= i && i <= r && {KEEP} && {VALID} && {DIMS}
//@   loop 7 invariant 1 <= i && i < r && 1 <= j && j <= c && {KEEP} && {VALID} && {DIMS}
//@   loop 8 invariant 0 <= i && i < r && 0 <= j && j < c && {KEEP} && {VALID} && {DIMS}
//@   loop 8 invariant [shape] {SHAPE}
//@   loop 8 invariant [aln] {ALN}
//@   loop 8 invariant [pairs] {PAIRS}
//@   loop 8 invariant [span] (len(aln) == 0 ==> maxI == r - 1 && maxJ == c - 1) && (len(aln) > 0 ==> aln[0].(*featPair).a.end == r - 1 && aln[0].(*featPair).b.end == c - 1)
//@   loop 8 writes fresh
//@   loop 9 invariant 0 <= i && j == len(aln) - 1 - i && {KEEP} && {VALID}
//@   loop 9 invariant [aln] {ALN}
//@   loop 9 invariant [pairs] {PAIRS}
//@   loop 9 invariant [span] len(aln) > 0 ==> (i == 0 ==> aln[len(aln)-1].(*featPair).a.start == 0 && aln[len(aln)-1].(*featPair).b.start == 0 && aln[0].(*featPair).a.end == len(rSeq) && aln[0].(*featPair).b.end == len(qSeq)) && (i > 0 ==> aln[0].(*featPair).a.start == 0 && aln[0].(*featPair).b.start == 0 && aln[len(aln)-1].(*featPair).a.end == len(rSeq) && aln[len(aln)-1].(*featPair).b.end == len(qSeq))
//@   loop 9 writes fresh
'''
def sw(recv, fn):
    # letters are validated by the fill loops only: all of them once both sequences are non-empty
    cv = f"(c > 1 ==> {RV}) && (r > 1 ==> {QV})"
    return f'''//@ func ({recv}).{fn}
//@   property C09
//@   maypanic
//@   requires alpha != nil && allocated(idxRef(alpha))
//@   ensures [illegal-reference] len(qSeq) > 0 && (exists k int :: 0 <= k && k < len(rSeq) && lidx(alpha, rSeq[k]) < 0) ==> result1 != nil
//@   ensures [illegal-query]     len(rSeq) > 0 && (exists k int :: 0 <= k && k < len(qSeq) && lidx(alpha, qSeq[k]) < 0) ==> result1 != nil
//@   ensures [undersized]        len(a) < alphaLen(alpha) ==> result1 != nil
//@   ensures [ragged]            (exists k int :: 0 <= k && k < len(a) && len(a[k]) != len(a)) ==> result1 != nil
//@   loop 1 invariant {LOOP1}
//@   loop 2 invariant 1 <= i && i <= r && 0 <= maxI && maxI < r && 0 <= maxJ && maxJ < c && {KEEP} && {DIMS}
//@   loop 2 invariant [valid] (c > 1 ==> forall k int :: 0 <= k && k < i - 1 ==> lidx(alpha, rSeq[k]) >= 0) && (i > 1 && c > 1 ==> {QV})
//@   loop 3 invariant 1 <= i && i < r && 1 <= j && j <= c
//@   loop 3 invariant [max] 0 <= maxI && maxI < r && 0 <= maxJ && maxJ < c
//@   loop 3 invariant [keep] {KEEP}
//@   loop 3 invariant [dims] {DIMS}
//@   loop 3 invariant [valid] (c > 1 ==> forall k int :: 0 <= k && k < i - 1 ==> lidx(alpha, rSeq[k]) >= 0) && (i > 1 && c > 1 ==> {QV}) && (j > 1 ==> lidx(alpha, rSeq[i-1]) >= 0) && (forall k int :: 0 <= k && k < j - 1 ==> lidx(alpha, qSeq[k]) >= 0)
//@   loop 4 invariant 0 <= i && i < r && 0 <= j && j < c && {KEEP} && {DIMS} && {cv}
//@   loop 4 invariant [shape] {SHAPE}
//@   loop 4 invariant [aln] {ALN}
//@   loop 4 invariant [pairs] {PAIRS}
//@   loop 4 writes fresh
//@   loop 5 invariant 0 <= i && j == len(aln) - 1 - i && {KEEP} && {cv} && r == len(rSeq) + 1 && c == len(qSeq) + 1
//@   loop 5 invariant [aln] {ALN}
//@   loop 5 invariant [pairs] {PAIRS}
//@   loop 5 writes fresh
'''
def fitted(recv, fn):
    return f'''//@ func ({recv}).{fn}
//@   property C09
//@   maypanic
//@   requires alpha != nil && allocated(idxRef(alpha)) && len(qSeq) > 0
{ENS}//@   loop 1 invariant {LOOP1}
//@   loop 2 invariant 0 <= idx && idx <= len(rSeq) && {KEEP} && forall k int :: 0 <= k && k < idx ==> lidx(alpha, rSeq[k]) >= 0
//@   loop 3 invariant 0 <= idx && idx <= len(qSeq) && {KEEP} && {RV} && forall k int :: 0 <= k && k < idx ==> lidx(alpha, qSeq[k]) >= 0
//@   loop 4 invariant 0 <= idx && idx <= c - 1 && {KEEP} && {VALID} && {DIMS}
//@   loop 5 invariant 1 <= i && i <= r && {KEEP} && {VALID} && {DIMS}
//@   loop 6 invariant 1 <= i && i < r && 1 <= j && j <= c && {KEEP} && {VALID} && {DIMS}
//@   loop 7 invariant j == c - 1 && i == 0 && {KEEP} && {VALID} && {DIMS}
//@   loop 7 invariant [aln] {ALN}
//@   loop 7 invariant [pairs] {PAIRS}
//@   loop 8 invariant 1 <= y && y <= r && j == c - 1 && 0 <= i && i < r && 0 <= qVal && qVal < let && {KEEP} && {VALID} && {DIMS}
//@   loop 8 invariant [aln] {ALN}
//@   loop 8 invariant [pairs] {PAIRS}
//@   loop 9 invariant 0 <= i && i < r && 0 <= j && j < c && {KEEP} && {VALID} && {DIMS}
//@   loop 9 invariant [shape] {SHAPE}
//@   loop 9 invariant [aln] {ALN}
//@   loop 9 invariant [pairs] {PAIRS}
//@   loop 9 writes fresh
//@   loop 10 invariant 0 <= i && j == len(aln) - 1 - i && {KEEP} && {VALID}
//@   loop 10 invariant [aln] {ALN}
//@   loop 10 invariant [pairs] {PAIRS}
//@   loop 10 writes fresh
'''
def affine(s):
    # affine aligners keep the matrix in a.Matrix
    return s.replace('len(a)', 'len(a.Matrix)').replace('a[k]', 'a.Matrix[k]')
def nwaffine(recv, fn):
    return affine(f'''//@ func ({recv}).{fn}
//@   property C09
//@   maypanic
//@   requires alpha != nil && allocated(idxRef(alpha)) && len(rSeq) > 0 && len(qSeq) > 0
{ENS}//@   ensures [spans] result1 == nil ==> len(result0) > 0 && result0[0].(*featPair).a.start == 0 && result0[0].(*featPair).b.start == 0 && result0[len(result0)-1].(*featPair).a.end == len(rSeq) && result0[len(result0)-1].(*featPair).b.end == len(qSeq)
//@   loop 1 invariant {LOOP1}
//@   loop 2 invariant 0 <= idx && idx <= len(rSeq) && {KEEP} && forall k int :: 0 <= k && k < idx ==> lidx(alpha, rSeq[k]) >= 0
//@   loop 3 invariant 0 <= idx && idx <= len(qSeq) && {KEEP} && {RV} && forall k int :: 0 <= k && k < idx ==> lidx(alpha, qSeq[k]) >= 0
//@   loop 4 invariant 0 <= idx && idx <= c - 2 && {KEEP} && {VALID} && {DIMS}
//@   loop 5 invariant 2 <= i && i <= r && {KEEP} && {VALID} && {DIMS}
//@   loop 6 invariant 1 <= i && i <= r && {KEEP} && {VALID} && {DIMS}
//@   loop 7 invariant 1 <= i && i < r && 1 <= j && j <= c && {KEEP} && {VALID} && {DIMS}
//@   loop 8 invariant 0 <= idx && idx <= 2 && 0 <= layer && layer <= 2 && {KEEP} && {VALID} && {DIMS}
//@   loop 8 invariant [aln] {ALN}
//@   loop 8 invariant [pairs] {PAIRS}
//@   loop 9 invariant 0 <= i && i < r && 0 <= j && j < c && 0 <= layer && layer <= 2 && {KEEP} && {VALID} && {DIMS}
//@   loop 9 invariant [shape] {SHAPE}
//@   loop 9 invariant [aln] {ALN}
//@   loop 9 invariant [pairs] {PAIRS}
//@   loop 9 invariant [span] (len(aln) == 0 ==> maxI == r - 1 && maxJ == c - 1) && (len(aln) > 0 ==> aln[0].(*featPair).a.end == r - 1 && aln[0].(*featPair).b.end == c - 1)
//@   loop 9 writes fresh
//@   loop 10 invariant 0 <= i && j == len(aln) - 1 - i && {KEEP} && {VALID}
//@   loop 10 invariant [aln] {ALN}
//@   loop 10 invariant [pairs] {PAIRS}
//@   loop 10 invariant [span] len(aln) > 0 ==> (i == 0 ==> aln[len(aln)-1].(*featPair).a.start == 0 && aln[len(aln)-1].(*featPair).b.start == 0 && aln[0].(*featPair).a.end == len(rSeq) && aln[0].(*featPair).b.end == len(qSeq)) && (i > 0 ==> aln[0].(*featPair).a.start == 0 && aln[0].(*featPair).b.start == 0 && aln[len(aln)-1].(*featPair).a.end == len(rSeq) && aln[len(aln)-1].(*featPair).b.end == len(qSeq))
//@   loop 10 writes fresh
''')
def swaffine(recv, fn):
    base = sw(recv, fn)
    base = base.replace("//@   loop 4 invariant 0 <= i && i < r && 0 <= j && j < c &&", "//@   loop 4 invariant 0 <= i && i < r && 0 <= j && j < c && 0 <= layer && layer <= 2 &&")
    return affine(base)
def fittedaffine(recv, fn):
    return affine(f'''//@ func ({recv}).{fn}
//@   property C09
//@   maypanic
//@   requires alpha != nil && allocated(idxRef(alpha)) && len(rSeq) > 0 && len(qSeq) > 0
{ENS}//@   loop 1 invariant {LOOP1}
//@   loop 2 invariant 0 <= idx && idx <= len(rSeq) && {KEEP} && forall k int :: 0 <= k && k < idx ==> lidx(alpha, rSeq[k]) >= 0
//@   loop 3 invariant 0 <= idx && idx <= len(qSeq) && {KEEP} && {RV} && forall k int :: 0 <= k && k < idx ==> lidx(alpha, qSeq[k]) >= 0
//@   loop 4 invariant 0 <= idx && idx <= c - 2 && {KEEP} && {VALID} && {DIMS}
//@   loop 5 invariant 2 <= i && i <= r && {KEEP} && {VALID} && {DIMS}
//@   loop 6 invariant 1 <= i && i <= r && {KEEP} && {VALID} && {DIMS}
//@   loop 7 invariant 1 <= i && i < r && 1 <= j && j <= c && {KEEP} && {VALID} && {DIMS}
//@   loop 8 invariant 1 <= y && y <= r && j == c - 1 && 0 <= i && i < r && layer == 0 && {KEEP} && {VALID} && {DIMS}
//@   loop 8 invariant [aln] {ALN}
//@   loop 8 invariant [pairs] {PAIRS}
//@   loop 9 invariant 0 <= i && i < r && 0 <= j && j < c && 0 <= layer && layer <= 2 && {KEEP} && {VALID} && {DIMS}
//@   loop 9 invariant [shape] {SHAPE}
//@   loop 9 invariant [aln] {ALN}
//@   loop 9 invariant [pairs] {PAIRS}
//@   loop 9 writes fresh
//@   loop 10 invariant 0 <= i && j == len(aln) - 1 - i && {KEEP} && {VALID}
//@   loop 10 invariant [aln] {ALN}
//@   loop 10 invariant [pairs] {PAIRS}
//@   loop 10 writes fresh
''')

# ---- C08: the dynamic programming table equals the optimum defined by the recurrence ----
# optimum spec functions: one per kernel (receiver and letter type); cell() is a marker that lets the definitional
# axiom fire only for the cell a proof obligation is about (proving(cell(i, j)) is dropped where a clause is assumed).
def opt_name(kind, ql):
    return {'nw': 'nwOpt', 'sw': 'swOpt', 'fitted': 'fitOpt'}[kind] + ('Q' if ql else '')
def opt_specs():
    out = ["// ---- the dynamic programming tables of the linear-gap kernels (C08) ----",
           "// <kind>Opt(a, alpha, rSeq, qSeq, i, j): the optimum score of aligning rSeq[:i] with qSeq[:j] as the textbook recurrence",
           "// defines it (global: gaps everywhere cost the matrix' gap column/row; local: floored at 0; fitted: a free reference",
           "// prefix). cell(i, j) is a marker, true everywhere: the recurrence is unfolded only for marked cells.",
           "//@ spec cell(i int, j int) bool",
           "//@ axiom forall i int, j int {cell(i, j)} :: cell(i, j)"]
    for kind, recv in (('nw', 'NW'), ('sw', 'SW'), ('fitted', 'Fitted')):
        for ql in (False, True):
            f = opt_name(kind, ql)
            lt = 'alphabet.QLetters' if ql else 'alphabet.Letters'
            L = '.L' if ql else ''
            O = lambda i, j: f"{f}(a, alpha, rSeq, qSeq, {i}, {j})"
            sub = f"a[lidx(alpha, rSeq[i-1]{L})][lidx(alpha, qSeq[j-1]{L})]"
            gr = f"a[lidx(alpha, rSeq[i-1]{L})][0]"
            gq = f"a[0][lidx(alpha, qSeq[j-1]{L})]"
            inner = f"max(max({O('i-1','j-1')} + {sub}, {O('i-1','j')} + {gr}), {O('i','j-1')} + {gq})"
            if kind == 'nw':
                body = f"(i == 0 && j == 0 ==> {O('i','j')} == 0) && (i == 0 && j > 0 ==> {O('i','j')} == {O('0','j-1')} + {gq}) && (i > 0 && j == 0 ==> {O('i','j')} == {O('i-1','0')} + {gr}) && (i > 0 && j > 0 ==> {O('i','j')} == {inner})"
            elif kind == 'fitted':
                body = f"(j == 0 ==> {O('i','j')} == 0) && (i == 0 && j > 0 ==> {O('i','j')} == {O('0','j-1')} + {gq}) && (i > 0 && j > 0 ==> {O('i','j')} == {inner})"
            else:
                body = f"((i == 0 || j == 0) ==> {O('i','j')} == 0) && (i > 0 && j > 0 ==> {O('i','j')} == max(0, {inner}))"
            out.append(f"//@ spec {f}(a {recv}, alpha alphabet.Alphabet, rSeq {lt}, qSeq {lt}, i int, j int) int")
            out.append(f"//@ axiom forall a {recv}, alpha alphabet.Alphabet, rSeq {lt}, qSeq {lt}, i int, j int {{{O('i','j')}, cell(i, j)}} :: {body}")
    return "\n".join(out) + "\n\n"
def dp_lines(kind, ql):
    f = opt_name(kind, ql)
    O = lambda i, j: f"{f}(a, alpha, rSeq, qSeq, {i}, {j})"
    def Q(vars_, trig, cond, i, j, idx):
        return f"forall {vars_} {{{trig}}} :: {cond} ==> proving(cell({i}, {j})) && table[{idx}] == {O(i, j)}"
    LA = lambda lim: f"forall x int, y int {{old(a[x][y])}} :: 0 <= x && x < {lim} && 0 <= y && y < let ==> la[x*let+y] == old(a[x][y])"
    row0 = lambda lim: Q('j2 int', O('0', 'j2'), f'0 <= j2 && j2 {lim}', '0', 'j2', 'j2')
    col0 = lambda lim: Q('i2 int', O('i2', '0'), f'0 <= i2 && i2 < {lim}', 'i2', '0', 'i2*c')
    done = lambda lim: Q('i2 int, j2 int', O('i2', 'j2'), f'0 <= i2 && i2 < {lim} && 0 <= j2 && j2 < c', 'i2', 'j2', 'i2*c+j2')
    prev = Q('j2 int', O('i-1', 'j2'), '0 <= j2 && j2 < c', 'i-1', 'j2', '(i-1)*c+j2')
    cur = Q('j2 int', O('i', 'j2'), '0 <= j2 && j2 < j', 'i', 'j2', 'i*c+j2')
    out = []
    A = lambda n, lab, e: out.append(f"//@   loop {n} invariant [{lab}] {e}")
    if kind == 'nw':
        la_loops, r0, c0, outer, inner, after = (2, 3, 4, 5, 6, 7), 4, 5, 6, 7, (8,)
    elif kind == 'fitted':
        la_loops, r0, c0, outer, inner, after = (2, 3, 4, 5, 6), 4, None, 5, 6, (7, 8, 9)
    else:
        la_loops, r0, c0, outer, inner, after = (2, 3), None, None, 2, 3, (4,)
    A(1, 'la', LA('idx'))
    out.append("//@   loop 1 writes fresh")
    for n in la_loops:
        A(n, 'la', LA('let'))
    if r0:
        A(r0, 'dp-row0', row0('<= idx'))
        if not c0:
            # the first column stays as make() left it
            A(r0, 'dp-zero', "forall k int :: idx < k && k < len(table) ==> table[k] == 0")
    if c0:
        A(c0, 'dp-row0', row0('< c'))
        A(c0, 'dp-col0', col0('i'))
        A(c0, 'dp-prev', f"proving(cell(i-1, 0)) && table[(i-1)*c] == {O('i-1', '0')}")
    for n in (outer, inner):
        A(n, 'dp-col0', col0('r'))
        A(n, 'dp-done', done('i'))
        A(n, 'dp-prev', prev)
    A(inner, 'dp-cur', cur)
    for n in after:
        A(n, 'dp', done('r'))
    return "\n".join(out) + "\n"
def q(s):
    # quality letters: the letter of element k is rSeq[k].L
    return s.replace('rSeq[k]', 'rSeq[k].L').replace('qSeq[k]', 'qSeq[k].L').replace('rSeq[i-1]', 'rSeq[i-1].L')
out = [opt_specs()]
for mk, recv, kind in ((nw, 'NW', 'nw'), (sw, 'SW', 'sw'), (fitted, 'Fitted', 'fitted')):
    out.append(mk(recv, 'alignLetters').replace('//@   property C09\n', '//@   property C09\n//@   property C08\n') + dp_lines(kind, False))
    out.append(q(mk(recv, 'alignQLetters')).replace('//@   property C09\n', '//@   property C09\n//@   property C08\n') + dp_lines(kind, True))
out.append(nwaffine('NWAffine', 'alignLetters'))
out.append(q(nwaffine('NWAffine', 'alignQLetters')))
out.append(swaffine('SWAffine', 'alignLetters'))
out.append(q(swaffine('SWAffine', 'alignQLetters')))
out.append(fittedaffine('FittedAffine', 'alignLetters'))
out.append(q(fittedaffine('FittedAffine', 'alignQLetters')))
sys.stdout.write('\n'.join(out))
