#!/bin/sh
# Build the verification framework offline from files on disk only.
set -e
cd "$(dirname "$0")/govc"
export GOFLAGS=-mod=mod GOPROXY=off GOSUMDB=off GOTOOLCHAIN=local CGO_ENABLED=0
mkdir -p ../bin
go build -o ../bin/govc .
