#!/bin/bash
# No-false-alarm corpus: every behaviour-preserving patch under /verif/benign is applied in a scratch worktree of /repo
# (under /tmp, removed afterwards) and the checks of the properties listed in its properties.txt must all exit 0.
# usage: benigntest.sh [-j N] [name-substring]
J=5; [ "$1" = "-j" ] && { J=$2; shift 2; }
cd /verif && ./setup.sh >/dev/null 2>&1
ls /verif/benign | grep -v notes | grep "${1:-}" | while read n; do echo "/verif/benign/$n/patch.diff $n $(cat /verif/benign/$n/properties.txt)"; done | xargs -P $J -L 1 /verif/tools/benigncheck.sh
git -C /repo worktree prune
