#!/bin/bash
# usage: runall.sh [tier] [ids...]  - runs the checks of all claimed properties in parallel, prints one summary line each
tier=${1:-quick}; shift
ids=${*:-$(python3 -c "import json;print(' '.join(c['property_id'] for c in json.load(open('/verif/MANIFEST.json'))['checks']))")}
cd /verif; ./setup.sh >/dev/null 2>&1
mkdir -p /tmp/runall
for id in $ids; do ( ./check $id --tier $tier > /tmp/runall/$id.log 2>&1; echo "$id exit=$? $(grep -E "^$id:" /tmp/runall/$id.log | tail -1)" ) & done; wait
grep -h "FAILED\|VIOLATION\|KNOWN" /tmp/runall/*.log | head -40
