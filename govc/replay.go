package main

import (
	"bytes"
	"context"
	"encoding/json"
	"fmt"
	"go/types"
	"os"
	"os/exec"
	"path/filepath"
	"regexp"
	"sort"
	"strconv"
	"strings"
	"time"

	"golang.org/x/tools/go/ssa"
)

// Replay: turn a solver model of a failed obligation into concrete inputs of the real
// function, run it (in-package test injected with `go test -overlay`, nothing is written
// into /repo) and check at run time (a) that it does not panic where the contract forbids it
// and (b) every postcondition that can be compiled to Go. A reproduced failure is a real
// failing input; anything else is reported as no-failing-input-found.

type oracle struct {
	script string // obligation script up to and including (check-sat)
	cache  map[string]string
	dir    string
	n      int
	solver string
}

func newOracle(smtFile string) (*oracle, error) {
	data, err := os.ReadFile(smtFile)
	if err != nil {
		return nil, err
	}
	s := string(data)
	if i := strings.LastIndex(s, "(get-model)"); i >= 0 {
		s = s[:i]
	}
	return &oracle{script: s, cache: map[string]string{}, dir: filepath.Dir(smtFile)}, nil
}

// values evaluates terms in one model (z3-new). Returns nil if the solver does not answer sat.
func (o *oracle) values(terms []string) (map[string]string, error) {
	out := map[string]string{}
	var need []string
	for _, t := range terms {
		if v, ok := o.cache[t]; ok {
			out[t] = v
		} else {
			need = append(need, t)
		}
	}
	if len(need) == 0 {
		return out, nil
	}
	// pin everything already known so that successive queries see one consistent model
	var pins strings.Builder
	keys := make([]string, 0, len(o.cache))
	for k := range o.cache {
		keys = append(keys, k)
	}
	sort.Strings(keys)
	body := strings.Replace(o.script, "(check-sat)", "", 1)
	for _, k := range keys {
		fmt.Fprintf(&pins, "(assert (= %s %s))\n", k, o.cache[k])
	}
	var q strings.Builder
	q.WriteString(body)
	q.WriteString(pins.String())
	q.WriteString("(check-sat)\n")
	for _, t := range need {
		fmt.Fprintf(&q, "(get-value (%s))\n", t)
	}
	o.n++
	f := filepath.Join(o.dir, fmt.Sprintf("replay_query_%d.smt2", o.n))
	if err := os.WriteFile(f, []byte(q.String()), 0o644); err != nil {
		return nil, err
	}
	if os.Getenv("GOVC_KEEPQ") == "" {
		defer os.Remove(f)
	}
	// the solver that produced the first model answers the later queries too; the other z3 is the fallback
	solvers := []string{"z3-new", "z3"}
	if o.solver == "z3" {
		solvers = []string{"z3", "z3-new"}
	}
	var lines []string
	var buf bytes.Buffer
	for _, sv := range solvers {
		buf.Reset()
		ctx, cancel := context.WithTimeout(context.Background(), 20*time.Second)
		cmd := exec.CommandContext(ctx, sv, "-smt2", "-T:15", "smt.array.extensional=false", f)
		cmd.Stdout = &buf
		cmd.Run()
		cancel()
		lines = strings.SplitN(buf.String(), "\n", 2)
		if strings.TrimSpace(lines[0]) == "sat" && len(lines) == 2 {
			o.solver = sv
			break
		}
	}
	if strings.TrimSpace(lines[0]) != "sat" || len(lines) < 2 {
		return nil, fmt.Errorf("model query not sat: %s", firstLines(buf.String(), 3))
	}
	// each get-value answer is ((term value))
	rest := lines[1]
	sx := parseAllSx(rest)
	if len(sx) < len(need) {
		return nil, fmt.Errorf("model query returned %d answers for %d terms", len(sx), len(need))
	}
	for i, t := range need {
		ans := sx[i]
		if len(ans.kids) == 1 && len(ans.kids[0].kids) == 2 {
			v := ans.kids[0].kids[1].String()
			o.cache[t] = v
			out[t] = v
		} else {
			return nil, fmt.Errorf("cannot parse model answer %s", ans.String())
		}
	}
	return out, nil
}

func parseAllSx(s string) []*sx {
	var out []*sx
	depth, start := 0, -1
	inBar := false
	for i := 0; i < len(s); i++ {
		c := s[i]
		switch {
		case c == '|':
			inBar = !inBar
		case inBar:
		case c == '(':
			if depth == 0 {
				start = i
			}
			depth++
		case c == ')':
			depth--
			if depth == 0 && start >= 0 {
				out = append(out, parseSx(s[start:i+1]))
				start = -1
			}
		}
	}
	return out
}

// prefer asks for a model that additionally satisfies the constraint (small strings and slices make
// replayable inputs); if one exists the constraint is kept for all later queries, otherwise nothing changes.
func (o *oracle) prefer(constraint string, forget ...string) bool {
	saved := map[string]string{}
	for _, k := range forget {
		if v, ok := o.cache[k]; ok {
			saved[k] = v
			delete(o.cache, k)
		}
	}
	old := o.script
	o.script = strings.Replace(o.script, "(check-sat)", "(assert "+constraint+")\n(check-sat)", 1)
	if _, err := o.values([]string{"(+ 0 0)"}); err != nil {
		o.script = old
		for k, v := range saved {
			o.cache[k] = v
		}
		return false
	}
	delete(o.cache, "(+ 0 0)")
	return true
}

func (o *oracle) val(term string) (string, error) {
	m, err := o.values([]string{term})
	if err != nil {
		return "", err
	}
	return m[term], nil
}

func smtInt(v string) (int64, bool) {
	v = strings.TrimSpace(v)
	if n, ok := litVal(v); ok {
		return n, true
	}
	// "(- 5)" handled by litVal; large values
	if strings.HasPrefix(v, "(- ") {
		if n, err := strconv.ParseInt(strings.TrimSuffix(strings.TrimPrefix(v, "(- "), ")"), 10, 64); err == nil {
			return -n, true
		}
	}
	if n, err := strconv.ParseInt(v, 10, 64); err == nil {
		return n, true
	}
	return 0, false
}

// ---- input construction ----

type inputBuilder struct {
	p       *Program
	vc      *VC
	o       *oracle
	pkg     *types.Package
	imports map[string]string // path -> alias
	pre     []string          // statements building shared objects
	objs    map[string]string // "type@ref" -> variable
	backing map[string]string // "elemtype@arr" -> variable of backing array slice
	nvar    int
	fail    string
}

func (b *inputBuilder) typeStr(t types.Type) string {
	return types.TypeString(t, func(p *types.Package) string {
		if p == b.pkg {
			return ""
		}
		if a, ok := b.imports[p.Path()]; ok {
			return a
		}
		a := p.Name()
		for _, used := range b.imports {
			if used == a {
				a = fmt.Sprintf("%s%d", p.Name(), len(b.imports))
			}
		}
		b.imports[p.Path()] = a
		return a
	})
}

func (b *inputBuilder) newVar(prefix string) string {
	b.nvar++
	return fmt.Sprintf("%s%d", prefix, b.nvar)
}

func (b *inputBuilder) heapSym(name string) (string, bool) {
	q := quoteSym(name + "@0")
	return q, b.vc.declared[q]
}

// build returns a Go expression of type t whose value is what `term` denotes in the model.
func (b *inputBuilder) build(term string, t types.Type, depth int) string {
	if b.fail != "" {
		return "nil"
	}
	if depth > 6 {
		b.fail = "input structure too deep"
		return "nil"
	}
	switch u := under(t).(type) {
	case *types.Basic:
		v, err := b.o.val(term)
		if err != nil {
			b.fail = err.Error()
			return "0"
		}
		switch {
		case u.Info()&types.IsBoolean != 0:
			return fmt.Sprintf("%s(%s)", b.typeStr(t), v)
		case u.Info()&types.IsInteger != 0:
			n, ok := smtInt(v)
			if !ok {
				b.fail = "non-literal integer in model: " + v
				return "0"
			}
			if lo, hi, bounded, _ := intRange(t); bounded && (n < lo || n > hi) {
				b.fail = fmt.Sprintf("model value %d outside the range of %s", n, t)
			}
			return fmt.Sprintf("%s(%d)", b.typeStr(t), n)
		case u.Info()&types.IsFloat != 0:
			return fmt.Sprintf("%s(%s)", b.typeStr(t), realToGo(v))
		case u.Info()&types.IsString != 0:
			return b.buildString(term, t)
		}
	case *types.Pointer:
		v, err := b.o.val(term)
		if err != nil {
			b.fail = err.Error()
			return "nil"
		}
		ref, ok := smtInt(v)
		if !ok {
			b.fail = "non-literal reference in model"
			return "nil"
		}
		if ref == 0 {
			return "nil"
		}
		return b.buildObject(ref, u.Elem(), depth)
	case *types.Slice:
		return b.buildSlice(term, t, u, depth)
	case *types.Struct:
		b.fail = "struct value without leaf symbols"
		return b.typeStr(t) + "{}"
	case *types.Interface:
		dv, err := b.o.val("(if.dyn " + term + ")")
		if err != nil {
			b.fail = err.Error()
			return "nil"
		}
		d, _ := smtInt(dv)
		if d == 0 {
			return "nil"
		}
		if int(d) > len(b.vc.typeByID) || d < 0 {
			// a dynamic type the verifier never named cannot matter to the failing path: ask for a model with nil there
			if b.o.prefer("(= (if.dyn "+term+") 0)", "(if.dyn "+term+")", term) {
				return "nil"
			}
		}
		if int(d) > len(b.vc.typeByID) {
			b.fail = "interface value of a dynamic type the verifier did not name"
			return "nil"
		}
		dt := b.vc.typeByID[d-1]
		if !types.AssignableTo(dt, t) {
			b.fail = "model picks a dynamic type that does not implement the interface"
			return "nil"
		}
		if pt, ok := under(dt).(*types.Pointer); ok {
			rv, err := b.o.val("(if.val " + term + ")")
			if err != nil {
				b.fail = err.Error()
				return "nil"
			}
			ref, _ := smtInt(rv)
			if ref == 0 {
				return fmt.Sprintf("(%s)(nil)", b.typeStr(dt))
			}
			return b.buildObject(ref, pt.Elem(), depth)
		}
		b.fail = "interface holding a non-pointer value"
		return "nil"
	case *types.Array:
		b.fail = "array-typed input"
	case *types.Signature:
		b.fail = "function-typed input"
	}
	if b.fail == "" {
		b.fail = "unsupported input type " + t.String()
	}
	return "nil"
}

func realToGo(v string) string {
	v = strings.TrimSpace(v)
	if strings.HasPrefix(v, "(/ ") {
		parts := strings.Fields(strings.Trim(v, "()"))
		if len(parts) == 3 {
			return parts[1] + "/" + parts[2]
		}
	}
	if strings.HasPrefix(v, "(- ") {
		return "-(" + realToGo(strings.TrimSuffix(strings.TrimPrefix(v, "(- "), ")")) + ")"
	}
	return v
}

func (b *inputBuilder) buildString(term string, t types.Type) string {
	lv, err := b.o.val("(gs.len " + term + ")")
	if err != nil {
		b.fail = err.Error()
		return `""`
	}
	n, _ := smtInt(lv)
	if n < 0 || n > 4096 {
		lt := "(gs.len " + term + ")"
		if b.o.prefer(fmt.Sprintf("(and (<= 0 %s) (<= %s 8))", lt, lt), lt, term) {
			if lv, err = b.o.val(lt); err == nil {
				n, _ = smtInt(lv)
			}
		}
	}
	if n < 0 || n > 4096 {
		b.fail = "string length in model is unreasonable"
		return `""`
	}
	var terms []string
	for i := int64(0); i < n; i++ {
		terms = append(terms, fmt.Sprintf("(select (gs.data %s) (sat %s %d))", term, term, i))
	}
	vals, err := b.o.values(terms)
	if err != nil {
		b.fail = err.Error()
		return `""`
	}
	bs := make([]byte, n)
	for i := range bs {
		x, _ := smtInt(vals[terms[i]])
		bs[i] = byte(x)
	}
	return fmt.Sprintf("%s(%s)", b.typeStr(t), strconv.Quote(string(bs)))
}

// buildObject materialises the struct (or cell) the reference points to; equal references share one object.
func (b *inputBuilder) buildObject(ref int64, elem types.Type, depth int) string {
	key := fmt.Sprintf("%s@%d", elem.String(), ref)
	if v, ok := b.objs[key]; ok {
		return v
	}
	v := b.newVar("obj")
	b.objs[key] = v
	b.pre = append(b.pre, fmt.Sprintf("%s := new(%s)", v, b.typeStr(elem)))
	if st, ok := under(elem).(*types.Struct); ok {
		b.fillStruct(v, elem, st, nil, ref, depth)
	} else {
		name := cellHeap(elem)
		if sym, ok := b.heapSym(name); ok {
			val := b.build(fmt.Sprintf("(select %s %d)", sym, ref), elem, depth+1)
			b.pre = append(b.pre, fmt.Sprintf("*%s = %s", v, val))
		}
	}
	return v
}

func (b *inputBuilder) fillStruct(v string, root types.Type, st *types.Struct, path []int, ref int64, depth int) {
	for i := 0; i < st.NumFields(); i++ {
		f := st.Field(i)
		p := append(append([]int(nil), path...), i)
		sel := v
		t := root
		for _, k := range p {
			s := under(t).(*types.Struct)
			sel += "." + s.Field(k).Name()
			t = s.Field(k).Type()
		}
		if inner, ok := under(f.Type()).(*types.Struct); ok {
			b.fillStruct(v, root, inner, p, ref, depth)
			continue
		}
		name, _ := fieldHeap(root, p)
		sym, ok := b.heapSym(name)
		if !ok {
			continue // never read by the function: zero value is as good as any
		}
		if arr, ok := under(f.Type()).(*types.Array); ok {
			if isStruct(arr.Elem()) || arr.Len() > 512 {
				continue
			}
			var terms []string
			for k := int64(0); k < arr.Len(); k++ {
				terms = append(terms, fmt.Sprintf("(select (select %s %d) %d)", sym, ref, k))
			}
			vals, err := b.o.values(terms)
			if err != nil {
				b.fail = err.Error()
				return
			}
			for k := int64(0); k < arr.Len(); k++ {
				val := vals[terms[k]]
				if isBool(arr.Elem()) {
					if val == "true" {
						b.pre = append(b.pre, fmt.Sprintf("%s[%d] = true", sel, k))
					}
					continue
				}
				if n, ok := smtInt(val); ok && n != 0 {
					b.pre = append(b.pre, fmt.Sprintf("%s[%d] = %s(%d)", sel, k, b.typeStr(arr.Elem()), n))
				}
			}
			continue
		}
		val := b.build(fmt.Sprintf("(select %s %d)", sym, ref), f.Type(), depth+1)
		if b.fail != "" {
			return
		}
		b.pre = append(b.pre, fmt.Sprintf("%s = %s", sel, val))
	}
}

func (b *inputBuilder) buildSlice(term string, t types.Type, u *types.Slice, depth int) string {
	vals, err := b.o.values([]string{"(sl.arr " + term + ")", "(sl.off " + term + ")", "(sl.len " + term + ")", "(sl.cap " + term + ")"})
	if err != nil {
		b.fail = err.Error()
		return "nil"
	}
	arr, _ := smtInt(vals["(sl.arr "+term+")"])
	off, _ := smtInt(vals["(sl.off "+term+")"])
	ln, _ := smtInt(vals["(sl.len "+term+")"])
	cp, _ := smtInt(vals["(sl.cap "+term+")"])
	if arr == 0 {
		return fmt.Sprintf("%s(nil)", b.typeStr(t))
	}
	if arr != 0 && (off < 0 || ln < 0 || cp < ln || off+cp > 1<<10) {
		q := func(f string) string { return "(" + f + " " + term + ")" }
		if b.o.prefer(fmt.Sprintf("(and (<= 0 %s) (<= %s 16) (<= 0 %s) (<= %s %s) (<= %s 64))", q("sl.off"), q("sl.off"), q("sl.len"), q("sl.len"), q("sl.cap"), q("sl.cap")),
			q("sl.arr"), q("sl.off"), q("sl.len"), q("sl.cap"), term) {
			if vals, err = b.o.values([]string{q("sl.arr"), q("sl.off"), q("sl.len"), q("sl.cap")}); err == nil {
				arr, _ = smtInt(vals[q("sl.arr")])
				off, _ = smtInt(vals[q("sl.off")])
				ln, _ = smtInt(vals[q("sl.len")])
				cp, _ = smtInt(vals[q("sl.cap")])
				if arr == 0 {
					return fmt.Sprintf("%s(nil)", b.typeStr(t))
				}
			}
		}
	}
	if off < 0 || ln < 0 || cp < ln || off+cp > 1<<16 {
		b.fail = "slice geometry in model is unreasonable"
		return "nil"
	}
	key := fmt.Sprintf("%s@%d", typeKey(u.Elem()), arr)
	back, ok := b.backing[key]
	size := off + cp
	if !ok {
		back = b.newVar("back")
		b.backing[key] = back
		b.pre = append(b.pre, fmt.Sprintf("%s := make([]%s, %d)", back, b.typeStr(u.Elem()), size+64))
	}
	// contents of the visible part
	for _, l := range leavesOf(u.Elem()) {
		name, lt := elemHeap(u.Elem(), l.Path)
		sym, ok := b.heapSym(name)
		if !ok {
			continue
		}
		var terms []string
		for i := int64(0); i < ln; i++ {
			terms = append(terms, fmt.Sprintf("(select (select %s %d) %d)", sym, arr, off+i))
		}
		if isBasicScalar(lt) {
			vs, err := b.o.values(terms)
			if err != nil {
				b.fail = err.Error()
				return "nil"
			}
			for i := int64(0); i < ln; i++ {
				sel := fmt.Sprintf("%s[%d]", back, off+i)
				if l.Name != "" {
					sel += "." + l.Name
				}
				v := vs[terms[i]]
				switch {
				case isBool(lt):
					b.pre = append(b.pre, fmt.Sprintf("%s = %s", sel, v))
				case isFloat(lt):
					b.pre = append(b.pre, fmt.Sprintf("%s = %s(%s)", sel, b.typeStr(lt), realToGo(v)))
				default:
					n, _ := smtInt(v)
					b.pre = append(b.pre, fmt.Sprintf("%s = %s(%d)", sel, b.typeStr(lt), n))
				}
			}
			continue
		}
		for i := int64(0); i < ln; i++ {
			sel := fmt.Sprintf("%s[%d]", back, off+i)
			if l.Name != "" {
				sel += "." + l.Name
			}
			v := b.build(terms[i], lt, depth+1)
			if b.fail != "" {
				return "nil"
			}
			b.pre = append(b.pre, fmt.Sprintf("%s = %s", sel, v))
		}
	}
	return fmt.Sprintf("%s(%s[%d:%d:%d])", b.typeStr(t), back, off, off+ln, off+cp)
}

func isBasicScalar(t types.Type) bool {
	b, ok := under(t).(*types.Basic)
	return ok && b.Info()&(types.IsInteger|types.IsBoolean|types.IsFloat) != 0
}

// paramExpr builds the Go value of a parameter (struct parameters leaf by leaf).
func (b *inputBuilder) paramExpr(name string, t types.Type) string {
	if st, ok := under(t).(*types.Struct); ok {
		var fields []string
		for i := 0; i < st.NumFields(); i++ {
			f := st.Field(i)
			fields = append(fields, fmt.Sprintf("%s: %s", f.Name(), b.paramExpr(name+"."+f.Name(), f.Type())))
		}
		return fmt.Sprintf("%s{%s}", b.typeStr(t), strings.Join(fields, ", "))
	}
	sym := quoteSym("p!" + name)
	if !b.vc.declared[sym] {
		return fmt.Sprintf("*new(%s)", b.typeStr(t))
	}
	return b.build(sym, t, 0)
}

// ---- the generated test ----

var reTestFail = regexp.MustCompile(`(?m)^\s*(verif_replay_test\.go:\d+: .*|panic: .*|--- FAIL.*)$`)

func tryReplay(p *Program, rep *FuncReport, o *Obligation, repo, rdir string) (bool, map[string]interface{}) {
	info := map[string]interface{}{}
	fn := p.FuncByKey[rep.Key]
	if fn == nil || o.SmtFile == "" {
		return false, nil
	}
	orc, err := newOracle(o.SmtFile)
	if err == nil && o.Solver == "z3" {
		orc.solver = "z3"
	}
	if err != nil {
		info["error"] = err.Error()
		return false, info
	}
	b := &inputBuilder{p: p, vc: rep.VC, o: orc, pkg: fn.Pkg.Pkg, imports: map[string]string{}, objs: map[string]string{}, backing: map[string]string{}}
	var args []string
	var recvArg string
	for i, prm := range fn.Params {
		e := b.paramExpr(prm.Name(), prm.Type())
		if b.fail != "" {
			info["error"] = "cannot build input " + prm.Name() + ": " + b.fail
			return false, info
		}
		if i == 0 && fn.Signature.Recv() != nil {
			recvArg = e
		} else {
			args = append(args, e)
		}
	}
	src := genReplayTest(p, rep, fn, b, recvArg, args)
	if src == "" {
		info["error"] = "could not generate a replay test"
		return false, info
	}
	os.MkdirAll(rdir, 0o755)
	base := safeFile(o.Name)
	testFile := filepath.Join(rdir, base+"_test.go.txt")
	os.WriteFile(testFile, []byte(src), 0o644)
	pkgDir := filepath.Dir(p.Fset.Position(fn.Pos()).Filename)
	ov := map[string]interface{}{"Replace": map[string]string{filepath.Join(pkgDir, "verif_replay_test.go"): testFile}}
	ovFile := filepath.Join(rdir, base+"_overlay.json")
	ob, _ := json.Marshal(ov)
	os.WriteFile(ovFile, ob, 0o644)
	rel, _ := filepath.Rel(repo, pkgDir)
	ctx, cancel := context.WithTimeout(context.Background(), 120*time.Second)
	defer cancel()
	cmd := exec.CommandContext(ctx, "go", "test", "-tags", "verif", "-overlay", ovFile, "-vet=off", "-count=1", "-timeout", "60s", "-run", "^TestVerifReplay$", "./"+rel)
	cmd.Dir = repo
	cmd.Env = append(os.Environ(), "GOFLAGS=-mod=mod", "GOPROXY=off", "GOSUMDB=off", "GOTOOLCHAIN=local")
	var buf bytes.Buffer
	cmd.Stdout, cmd.Stderr = &buf, &buf
	runErr := cmd.Run()
	out := buf.String()
	info["test_source"] = testFile
	info["command"] = fmt.Sprintf("cd %s && go test -tags verif -overlay %s -vet=off -count=1 -timeout 60s -run '^TestVerifReplay$' ./%s", repo, ovFile, rel)
	info["output"] = lastLines(out, 25)
	if runErr != nil && strings.Contains(out, "REPLAY-VIOLATION") {
		info["reproduced"] = true
		return true, info
	}
	if runErr != nil && !strings.Contains(out, "REPLAY-VIOLATION") {
		info["reproduced"] = false
		info["note"] = "the generated test did not build or failed for another reason"
		return false, info
	}
	info["reproduced"] = false
	return false, info
}

func genReplayTest(p *Program, rep *FuncReport, fn *ssa.Function, b *inputBuilder, recv string, args []string) string {
	c := rep.Contract
	sig := fn.Signature
	rc := &racCompiler{p: p, b: b, fn: fn, vars: map[string]racVar{}}
	var body strings.Builder
	for _, s := range b.pre {
		body.WriteString("\t" + s + "\n")
	}
	// parameters
	for i, prm := range fn.Params {
		var e string
		if i == 0 && sig.Recv() != nil {
			e = recv
		} else if sig.Recv() != nil {
			e = args[i-1]
		} else {
			e = args[i]
		}
		fmt.Fprintf(&body, "\tvar in_%s %s = %s\n", prm.Name(), b.typeStr(prm.Type()), e)
		fmt.Fprintf(&body, "\told_%s := verifDeepCopy(in_%s).(%s)\n\t_ = old_%s\n", prm.Name(), prm.Name(), b.typeStr(prm.Type()), prm.Name())
		rc.vars[prm.Name()] = racVar{"in_" + prm.Name(), "old_" + prm.Name(), prm.Type()}
	}
	// the call
	var call string
	var callArgs []string
	start := 0
	if sig.Recv() != nil {
		start = 1
	}
	for i := start; i < len(fn.Params); i++ {
		a := "in_" + fn.Params[i].Name()
		if sig.Variadic() && i == len(fn.Params)-1 {
			a += "..."
		}
		callArgs = append(callArgs, a)
	}
	if sig.Recv() != nil {
		call = fmt.Sprintf("in_%s.%s(%s)", fn.Params[0].Name(), fn.Name(), strings.Join(callArgs, ", "))
	} else {
		call = fmt.Sprintf("%s(%s)", fn.Name(), strings.Join(callArgs, ", "))
	}
	var resNames []string
	for i := 0; i < sig.Results().Len(); i++ {
		n := fmt.Sprintf("res%d", i)
		resNames = append(resNames, n)
		rv := sig.Results().At(i)
		rc.vars[fmt.Sprintf("result%d", i)] = racVar{n, n, rv.Type()}
		if rv.Name() != "" && rv.Name() != "_" {
			rc.vars[rv.Name()] = racVar{n, n, rv.Type()}
		}
		if sig.Results().Len() == 1 {
			rc.vars["result"] = racVar{n, n, rv.Type()}
		}
		fmt.Fprintf(&body, "\tvar %s %s\n\t_ = %s\n", n, b.typeStr(rv.Type()), n)
	}
	body.WriteString("\tfunc() {\n\t\tdefer func() {\n\t\t\tif r := recover(); r != nil {\n")
	if c.MayPanic {
		body.WriteString("\t\t\t\tt.Logf(\"panic (allowed by the contract): %v\", r)\n\t\t\t\tpanicked = true\n")
	} else {
		body.WriteString("\t\t\t\tt.Fatalf(\"REPLAY-VIOLATION: the function panicked: %v\", r)\n")
	}
	body.WriteString("\t\t\t}\n\t\t}()\n")
	if len(resNames) > 0 {
		fmt.Fprintf(&body, "\t\t%s = %s\n", strings.Join(resNames, ", "), call)
	} else {
		fmt.Fprintf(&body, "\t\t%s\n", call)
	}
	body.WriteString("\t}()\n\tif panicked {\n\t\treturn\n\t}\n")
	// postconditions
	checked := 0
	for _, e := range c.Ensures {
		code, ok := rc.compileBool(e.E)
		if !ok {
			fmt.Fprintf(&body, "\t// not executable: %s (%s)\n", e.Name(), rc.why)
			rc.why = ""
			continue
		}
		checked++
		fmt.Fprintf(&body, "\tif !(%s) {\n\t\tt.Fatalf(\"REPLAY-VIOLATION: %s does not hold: %%s\", %s)\n\t}\n", code, e.Name(), strconv.Quote(e.Text))
	}
	var imp strings.Builder
	imp.WriteString("import (\n\t\"reflect\"\n\t\"testing\"\n\t\"unsafe\"\n")
	var paths []string
	for path := range b.imports {
		paths = append(paths, path)
	}
	sort.Strings(paths)
	for _, path := range paths {
		fmt.Fprintf(&imp, "\t%s %q\n", b.imports[path], path)
	}
	imp.WriteString(")\n")
	return fmt.Sprintf("//go:build verif\n\npackage %s\n\n%s\n// Generated by govc from the solver model of obligation %s.\nfunc TestVerifReplay(t *testing.T) {\n\tpanicked := false\n\t_ = panicked\n%s\tt.Logf(\"no violation reproduced (%d postconditions checked at run time)\")\n}\n\n%s",
		fn.Pkg.Pkg.Name(), imp.String(), rep.Short, body.String(), checked, deepCopySrc)
}

const deepCopySrc = `var _ = unsafe.Pointer(nil)

// verifDeepCopy copies a value including everything reachable through pointers and slices.
func verifDeepCopy(x interface{}) interface{} {
	if x == nil {
		return nil
	}
	seen := map[uintptr]reflect.Value{}
	v := reflect.ValueOf(x)
	out := reflect.New(v.Type()).Elem()
	verifCopyInto(out, v, seen)
	return out.Interface()
}

func verifSettable(v reflect.Value) reflect.Value {
	if v.CanSet() {
		return v
	}
	if v.CanAddr() {
		return reflect.NewAt(v.Type(), unsafe.Pointer(v.UnsafeAddr())).Elem()
	}
	return v
}

func verifReadable(v reflect.Value) reflect.Value {
	if v.CanInterface() {
		return v
	}
	if v.CanAddr() {
		return reflect.NewAt(v.Type(), unsafe.Pointer(v.UnsafeAddr())).Elem()
	}
	c := reflect.New(v.Type()).Elem()
	return c
}

func verifCopyInto(dst, src reflect.Value, seen map[uintptr]reflect.Value) {
	dst = verifSettable(dst)
	switch src.Kind() {
	case reflect.Ptr:
		if src.IsNil() {
			return
		}
		if d, ok := seen[src.Pointer()]; ok {
			dst.Set(d)
			return
		}
		n := reflect.New(src.Type().Elem())
		seen[src.Pointer()] = n
		verifCopyInto(n.Elem(), src.Elem(), seen)
		dst.Set(n)
	case reflect.Slice:
		if src.IsNil() {
			return
		}
		n := reflect.MakeSlice(src.Type(), src.Len(), src.Len())
		for i := 0; i < src.Len(); i++ {
			verifCopyInto(n.Index(i), src.Index(i), seen)
		}
		dst.Set(n)
	case reflect.Struct:
		tmp := reflect.New(src.Type()).Elem()
		tmp.Set(verifReadable(src))
		for i := 0; i < src.NumField(); i++ {
			verifCopyInto(dst.Field(i), tmp.Field(i), seen)
		}
	case reflect.Interface:
		if src.IsNil() {
			return
		}
		inner := reflect.New(src.Elem().Type()).Elem()
		verifCopyInto(inner, src.Elem(), seen)
		dst.Set(inner)
	case reflect.Array:
		for i := 0; i < src.Len(); i++ {
			verifCopyInto(dst.Index(i), src.Index(i), seen)
		}
	default:
		dst.Set(verifReadable(src))
	}
}
`
