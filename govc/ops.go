package main

import (
	"fmt"
	"go/ast"
	"go/constant"
	"go/token"
	"go/types"
	"math/big"
	"sort"
	"strings"

	"golang.org/x/tools/go/ssa"
)

func constInt(c *ssa.Const) (*big.Int, bool) {
	v := constant.ToInt(c.Value)
	if v.Kind() != constant.Int {
		return nil, false
	}
	if i, ok := constant.Int64Val(v); ok {
		return big.NewInt(i), true
	}
	b, ok := new(big.Int).SetString(v.ExactString(), 10)
	return b, ok
}

func constRat(c *ssa.Const) (*big.Rat, bool) {
	v := constant.ToFloat(c.Value)
	if v.Kind() != constant.Float && v.Kind() != constant.Int {
		return nil, false
	}
	r, ok := new(big.Rat).SetString(v.ExactString())
	return r, ok
}

func constString(c *ssa.Const) string { return constant.StringVal(c.Value) }

// wrap reduces a mathematical integer to the range of a sized Go integer type.
func wrapTo(t Term, ty types.Type) Term {
	lo, hi, bounded, _ := intRange(ty)
	if !bounded {
		return t
	}
	size := big.NewInt(hi - lo + 1)
	if lo == 0 {
		return App(SInt, "mod", t, BigLit(size))
	}
	// signed: ((t - lo) mod size) + lo
	return Add(App(SInt, "mod", Sub(t, IntLit(lo)), BigLit(size)), IntLit(lo))
}

func isLit(t Term) (int64, bool) {
	if t.Sort != SInt {
		return 0, false
	}
	return litVal(t.S)
}

// goDiv / goMod: Go's truncated division on mathematical integers.
func goDiv(a, b Term) Term {
	if n, ok := isLit(b); ok && n > 0 {
		return Ite(Ge(a, IntLit(0)), App(SInt, "div", a, b), Neg(App(SInt, "div", Neg(a), b)))
	}
	absdiv := App(SInt, "div", App(SInt, "abs", a), App(SInt, "abs", b))
	return Ite(Eq(Ge(a, IntLit(0)), Ge(b, IntLit(0))), absdiv, Neg(absdiv))
}

func goMod(a, b Term) Term {
	if n, ok := isLit(b); ok && n > 0 {
		return Ite(Ge(a, IntLit(0)), App(SInt, "mod", a, b), Neg(App(SInt, "mod", Neg(a), b)))
	}
	m := App(SInt, "mod", App(SInt, "abs", a), App(SInt, "abs", b))
	return Ite(Ge(a, IntLit(0)), m, Neg(m))
}

func pow2(n int64) *big.Int { return new(big.Int).Lsh(big.NewInt(1), uint(n)) }

func (ex *Exec) unop(fr *Frame, x *ssa.UnOp, st *State, reach Term) Val {
	v := ex.get(fr, x.X, st)
	switch x.Op {
	case token.MUL: // load
		p := ex.asPtr(v)
		ex.nilCheck(fr, p, reach, x.Pos(), "load")
		return ex.load(p, st)
	case token.SUB:
		t := ex.scalar(v)
		if isFloat(x.Type()) {
			return Scalar{Neg(t), x.Type()}
		}
		return Scalar{wrapTo(Neg(t), x.Type()), x.Type()}
	case token.NOT:
		return Scalar{Not(ex.scalar(v)), x.Type()}
	case token.ARROW:
		if ex.isMailbox(x.X) && !x.CommaOk {
			ch := ex.scalar(v)
			elem := under(x.X.Type()).(*types.Chan).Elem()
			full := Select(mboxFull(st), ch)
			ob := ex.vc.oblige("chan", fr.name("chan-take-empty:"+chanFieldKey(x.X)), reach, full, ex.where(x.Pos()))
			ob.Descr = "a receive on an empty one-slot mailbox would block forever (single goroutine)"
			ex.vc.assume(Implies(reach, full))
			val := ex.mboxGet(ch, elem, st)
			ex.mboxSetFull(ch, False, st)
			return val
		}
		// channel receive: an arbitrary value
		ex.vc.Assumptions["channels are opaque: a send has no modelled effect, a receive yields an arbitrary value (no deadlock reasoning)"] = true
		if x.CommaOk {
			tup := x.Type().(*types.Tuple)
			return TupleV{E: []Val{ex.freshVal("recv", tup.At(0).Type(), st), Scalar{ex.vc.fresh("recvok", SBool), types.Typ[types.Bool]}}}
		}
		rv := ex.freshVal("recv", x.Type(), st)
		if ci := ex.chanInvOf(x.X); ci != nil {
			env := &SpecEnv{vars: map[string]Val{ci.Var: rv}, st: st, lst: st, pkg: fnPkg(fr.fn), topOld: fr.entry.top}
			env.old = env
			ex.vc.assume(Implies(reach, ex.evalBool(ci.E, env)))
			ex.vc.Assumptions["channel invariant on "+ci.Field+" (checked at every send in the package): "+ci.Text] = true
		}
		return rv
	case token.XOR:
		t := ex.scalar(v)
		_, hi, bounded, uns := intRange(x.Type())
		if bounded && uns {
			return Scalar{Sub(IntLit(hi), t), x.Type()}
		}
		return Scalar{Sub(Neg(t), IntLit(1)), x.Type()} // ^x == -x-1 on signed / unbounded
	}
	panic(unsupported("unary operator %s", x.Op))
}

func (ex *Exec) binop(fr *Frame, x *ssa.BinOp, st *State, reach Term) Val {
	a := ex.get(fr, x.X, st)
	b := ex.get(fr, x.Y, st)
	t := ex.binopTerm(fr, x.Op, a, b, x.X.Type(), x.Type(), st, reach, x.Pos())
	return Scalar{ex.vc.define(x.Name(), t), x.Type()}
}

func (ex *Exec) binopTerm(fr *Frame, op token.Token, av, bv Val, opTy, resTy types.Type, st *State, reach Term, pos token.Pos) Term {
	switch op {
	case token.EQL, token.NEQ:
		eq := ex.equalVals(av, bv)
		if op == token.NEQ {
			return Not(eq)
		}
		return eq
	}
	a, b := ex.scalar(av), ex.scalar(bv)
	switch {
	case isString(opTy):
		switch op {
		case token.ADD:
			return ex.strConcat(a, b)
		}
		panic(unsupported("string operator %s", op))
	case isFloat(opTy):
		switch op {
		case token.ADD:
			return App(SReal, "+", a, b)
		case token.SUB:
			return App(SReal, "-", a, b)
		case token.MUL:
			return App(SReal, "*", a, b)
		case token.QUO:
			return App(SReal, "/", a, b)
		case token.LSS:
			return Lt(a, b)
		case token.LEQ:
			return Le(a, b)
		case token.GTR:
			return Gt(a, b)
		case token.GEQ:
			return Ge(a, b)
		}
	case isBool(opTy):
		switch op {
		case token.AND, token.LAND:
			return And(a, b)
		case token.OR, token.LOR:
			return Or(a, b)
		}
	case isInteger(opTy):
		switch op {
		case token.ADD:
			return wrapTo(Add(a, b), resTy)
		case token.SUB:
			return wrapTo(Sub(a, b), resTy)
		case token.MUL:
			return wrapTo(ex.mulTerm(a, b), resTy)
		case token.QUO:
			if fr != nil {
				o := ex.vc.oblige("div0", fr.name("div0:"+ex.exprText(fr, pos, "/")), reach, Neq(b, IntLit(0)), ex.where(pos))
				o.Descr = "integer division by zero"
				ex.vc.assume(Implies(reach, Neq(b, IntLit(0))))
			}
			return wrapTo(goDiv(a, b), resTy)
		case token.REM:
			if fr != nil {
				o := ex.vc.oblige("div0", fr.name("div0:"+ex.exprText(fr, pos, "%")), reach, Neq(b, IntLit(0)), ex.where(pos))
				o.Descr = "integer modulo by zero"
				ex.vc.assume(Implies(reach, Neq(b, IntLit(0))))
			}
			return goMod(a, b)
		case token.LSS:
			return Lt(a, b)
		case token.LEQ:
			return Le(a, b)
		case token.GTR:
			return Gt(a, b)
		case token.GEQ:
			return Ge(a, b)
		case token.AND:
			return ex.bitAnd(a, b, resTy)
		case token.OR:
			return ex.bitOr(a, b, resTy)
		case token.XOR:
			return ex.bitUF("bitxor", a, b)
		case token.AND_NOT:
			return ex.bitUF("bitandnot", a, b)
		case token.SHL:
			if n, ok := isLit(b); ok && n >= 0 && n < 63 {
				return wrapTo(App(SInt, "*", a, BigLit(pow2(n))), resTy)
			}
			return wrapTo(ex.bitUF("shl", a, b), resTy)
		case token.SHR:
			if n, ok := isLit(b); ok && n >= 0 && n < 63 {
				return App(SInt, "div", a, BigLit(pow2(n))) // floor division == arithmetic shift
			}
			return ex.bitUF("shr", a, b)
		}
	}
	panic(unsupported("binary operator %s on %s", op, shortType(opTy)))
}

func (ex *Exec) exprText(fr *Frame, pos token.Pos, dflt string) string {
	t := ex.prog.exprTextAt(fr.fn, pos, func(n ast.Node) bool {
		_, ok := n.(*ast.BinaryExpr)
		return ok
	})
	if t == "" {
		return dflt
	}
	return t
}

func (ex *Exec) bitUF(name string, a, b Term) Term {
	f := ex.vc.declareFun(name, []Sort{SInt, SInt}, SInt)
	ex.vc.Unmodelled["bit operation "+name+" as uninterpreted function"] = true
	return App(SInt, f, a, b)
}

// bitAnd handles masks of the form 2^k-1 exactly (for non-negative left operands).
func (ex *Exec) bitAnd(a, b Term, ty types.Type) Term {
	if n, ok := isLit(b); ok && n >= 0 && (n+1)&n == 0 {
		return App(SInt, "mod", a, IntLit(n+1))
	}
	if n, ok := isLit(a); ok && n >= 0 && (n+1)&n == 0 {
		return App(SInt, "mod", b, IntLit(n+1))
	}
	return ex.bitUF("bitand", a, b)
}

// bitOr handles a single-bit constant exactly.
func (ex *Exec) bitOr(a, b Term, ty types.Type) Term {
	if n, ok := isLit(b); ok && n > 0 && n&(n-1) == 0 {
		// a | 2^k: add the bit if it is clear
		bit := IntLit(n)
		has := Ge(App(SInt, "mod", a, IntLit(2*n)), bit)
		return Ite(has, a, Add(a, bit))
	}
	if _, ok := isLit(a); ok {
		if _, ok2 := isLit(b); !ok2 {
			return ex.bitOr(b, a, ty)
		}
	}
	return ex.bitUF("bitor", a, b)
}

func (ex *Exec) equalVals(a, b Val) Term {
	switch x := a.(type) {
	case StructV:
		y := b.(StructV)
		var cs []Term
		for i := range x.F {
			cs = append(cs, ex.equalVals(x.F[i], y.F[i]))
		}
		return And(cs...)
	}
	ta, tb := ex.scalar(a), ex.scalar(b)
	if ta.Sort == SStr {
		return ex.strEq(ta, tb)
	}
	if ta.Sort == SSlice {
		// only comparison with nil is legal Go
		if tb.S == NilSlice.S {
			return Eq(SlArr(ta), IntLit(0))
		}
		if ta.S == NilSlice.S {
			return Eq(SlArr(tb), IntLit(0))
		}
	}
	return Eq(ta, tb)
}

func (ex *Exec) strEq(a, b Term) Term {
	if b.S == emptyStr.S {
		return Eq(StrLen(a), IntLit(0))
	}
	if a.S == emptyStr.S {
		return Eq(StrLen(b), IntLit(0))
	}
	i := Var("i?", SInt)
	return And(Eq(StrLen(a), StrLen(b)),
		Forall([]Bound{{"i?", SInt}}, Implies(InRange(IntLit(0), i, StrLen(a)), Eq(StrAt(a, i), StrAt(b, i)))))
}

func (ex *Exec) strConcat(a, b Term) Term {
	d := ex.vc.fresh("cat", ArraySort(SInt))
	i := Var("i?", SInt)
	ex.vc.assume(Forall([]Bound{{"i?", SInt}}, Implies(InRange(IntLit(0), i, StrLen(a)), Eq(Select(d, i), StrAt(a, i)))))
	ex.vc.assume(Forall([]Bound{{"i?", SInt}}, Implies(InRange(IntLit(0), i, StrLen(b)), Eq(Select(d, Add(StrLen(a), i)), StrAt(b, i)))))
	return MkStr(d, IntLit(0), Add(StrLen(a), StrLen(b)))
}

func (ex *Exec) boundsObl(fr *Frame, kind string, pos token.Pos, reach, goal Term, want func(ast.Node) bool, dflt string) {
	txt := ex.prog.exprTextAt(fr.fn, pos, want)
	if txt == "" {
		txt = dflt
	}
	o := ex.vc.oblige(kind, fr.name(kind+":"+txt), reach, goal, ex.where(pos))
	o.Descr = kind + " check"
	ex.vc.assume(Implies(reach, goal))
}

func isIndexExpr(n ast.Node) bool { _, ok := n.(*ast.IndexExpr); return ok }
func isSliceExpr(n ast.Node) bool { _, ok := n.(*ast.SliceExpr); return ok }
func isCallExpr(n ast.Node) bool  { _, ok := n.(*ast.CallExpr); return ok }
func isRangeStmt(n ast.Node) bool { _, ok := n.(*ast.RangeStmt); return ok }
func isTypeAssertExpr(n ast.Node) bool {
	_, ok := n.(*ast.TypeAssertExpr)
	return ok
}

func (ex *Exec) indexAddr(fr *Frame, x *ssa.IndexAddr, st *State, reach Term) Val {
	base := ex.get(fr, x.X, st)
	idx := ex.scalar(ex.get(fr, x.Index, st))
	switch u := under(x.X.Type()).(type) {
	case *types.Slice:
		s := ex.scalar(base)
		ex.boundsObl(fr, "index", x.Pos(), reach, InRange(IntLit(0), idx, SlLen(s)), isIndexExpr, "slice")
		return PtrV{Ty: x.Type(), Kind: rootElem, Slice: s, Idx: idx, RootTy: u.Elem()}
	case *types.Pointer:
		arr := under(u.Elem()).(*types.Array)
		p := ex.asPtr(base)
		ex.nilCheck(fr, p, reach, x.Pos(), "index")
		ex.boundsObl(fr, "index", x.Pos(), reach, InRange(IntLit(0), idx, IntLit(arr.Len())), isIndexExpr, "array")
		if p.Kind == rootRef && len(p.Steps) == 0 {
			// a free-standing array object lives in the element heap
			n := IntLit(arr.Len())
			return PtrV{Ty: x.Type(), Kind: rootElem, Slice: MkSlice(p.Ref, IntLit(0), n, n), Idx: idx, RootTy: arr.Elem()}
		}
		return p.withStep(Step{Field: -1, Idx: idx}, x.Type())
	}
	panic(unsupported("IndexAddr on %s", shortType(x.X.Type())))
}

func (ex *Exec) index(fr *Frame, x *ssa.Index, st *State, reach Term) Val {
	base := ex.scalar(ex.get(fr, x.X, st))
	idx := ex.scalar(ex.get(fr, x.Index, st))
	if isString(x.X.Type()) {
		ex.boundsObl(fr, "index", x.Pos(), reach, InRange(IntLit(0), idx, StrLen(base)), isIndexExpr, "string")
		r := ex.vc.define(x.Name(), StrAt(base, idx))
		ex.vc.assume(And(Le(IntLit(0), r), Le(r, IntLit(255))))
		return Scalar{r, x.Type()}
	}
	switch u := under(x.X.Type()).(type) {
	case *types.Array:
		ex.boundsObl(fr, "index", x.Pos(), reach, InRange(IntLit(0), idx, IntLit(u.Len())), isIndexExpr, "array")
		r := ex.vc.define(x.Name(), Select(base, idx))
		ex.typeFacts(r, u.Elem(), st)
		return Scalar{r, x.Type()}
	}
	panic(unsupported("Index on %s", shortType(x.X.Type())))
}

func (ex *Exec) lookup(fr *Frame, x *ssa.Lookup, st *State, reach Term) Val {
	if isString(x.X.Type()) {
		s := ex.scalar(ex.get(fr, x.X, st))
		idx := ex.scalar(ex.get(fr, x.Index, st))
		ex.boundsObl(fr, "index", x.Pos(), reach, InRange(IntLit(0), idx, StrLen(s)), isIndexExpr, "string")
		r := ex.vc.define(x.Name(), StrAt(s, idx))
		ex.vc.assume(And(Le(IntLit(0), r), Le(r, IntLit(255))))
		return Scalar{r, x.Type()}
	}
	panic(unsupported("map lookup"))
}

func (ex *Exec) sliceOp(fr *Frame, x *ssa.Slice, st *State, reach Term) Val {
	base := ex.get(fr, x.X, st)
	opt := func(v ssa.Value) (Term, bool) {
		if v == nil {
			return Term{}, false
		}
		return ex.scalar(ex.get(fr, v, st)), true
	}
	lo, hasLo := opt(x.Low)
	hi, hasHi := opt(x.High)
	mx, hasMax := opt(x.Max)
	if !hasLo {
		lo = IntLit(0)
	}
	switch u := under(x.X.Type()).(type) {
	case *types.Slice:
		s := ex.scalar(base)
		if !hasHi {
			hi = SlLen(s)
		}
		if !hasMax {
			mx = SlCap(s)
		}
		goal := And(Le(IntLit(0), lo), Le(lo, hi), Le(hi, mx), Le(mx, SlCap(s)))
		ex.boundsObl(fr, "slice", x.Pos(), reach, goal, isSliceExpr, "slice")
		r := MkSlice(SlArr(s), Add(SlOff(s), lo), Sub(hi, lo), Sub(mx, lo))
		// a nil slice stays nil when resliced [0:0]
		return Scalar{ex.vc.define(x.Name(), r), x.Type()}
	case *types.Basic: // string
		s := ex.scalar(base)
		if !hasHi {
			hi = StrLen(s)
		}
		goal := And(Le(IntLit(0), lo), Le(lo, hi), Le(hi, StrLen(s)))
		ex.boundsObl(fr, "slice", x.Pos(), reach, goal, isSliceExpr, "string")
		return Scalar{ex.vc.define(x.Name(), MkStr(StrData(s), Add(StrOff(s), lo), Sub(hi, lo))), x.Type()}
	case *types.Pointer: // pointer to array: a[:] makes the array the backing store
		arr := under(u.Elem()).(*types.Array)
		n := IntLit(arr.Len())
		if !hasHi {
			hi = n
		}
		if !hasMax {
			mx = n
		}
		p := ex.asPtr(base)
		goal := And(Le(IntLit(0), lo), Le(lo, hi), Le(hi, mx), Le(mx, n))
		ex.boundsObl(fr, "slice", x.Pos(), reach, goal, isSliceExpr, "array")
		if p.Kind == rootRef && len(p.Steps) == 0 {
			return Scalar{ex.vc.define(x.Name(), MkSlice(p.Ref, lo, Sub(hi, lo), Sub(mx, lo))), x.Type()}
		}
		ref := ex.arrayBacking(p, arr, st)
		return Scalar{ex.vc.define(x.Name(), MkSlice(ref, lo, Sub(hi, lo), Sub(mx, lo))), x.Type()}
	}
	panic(unsupported("slice of %s", shortType(x.X.Type())))
}

// arrayBacking gives the array object identity used when a Go array (held as an SMT array
// value in a field, cell or local) is sliced. The element heap row of that identity is
// tied to the current array value; later writes through the slice are NOT reflected
// back into the array value, so this is only used for read-only views.
func (ex *Exec) arrayBacking(p PtrV, arr *types.Array, st *State) Term {
	cur := ex.scalar(ex.load(p, st))
	ref := ex.allocRef("arrview", st)
	if ex.track != nil {
		ex.track.freshSym[ref.S] = true
	}
	name, _ := elemHeap(arr.Elem(), nil)
	h := st.heap(name, ArraySort(ArraySort(sortOf(arr.Elem()))))
	ex.vc.assume(Eq(Select(h, ref), cur))
	ex.vc.Assumptions["a slice of (or pointer to) an array-typed struct field is a snapshot view: direct writes through it are mirrored back, later writes to the field are not seen through an older view"] = true
	if ex.views == nil {
		ex.views = map[string]PtrV{}
	}
	ex.views[ref.S] = p
	return ref
}

func (ex *Exec) makeSlice(fr *Frame, x *ssa.MakeSlice, st *State, reach Term) Val {
	ln := ex.scalar(ex.get(fr, x.Len, st))
	cp := ex.scalar(ex.get(fr, x.Cap, st))
	ex.boundsObl(fr, "makeslice", x.Pos(), reach, And(Le(IntLit(0), ln), Le(ln, cp)), isCallExpr, "make")
	elem := under(x.Type()).(*types.Slice).Elem()
	return Scalar{ex.newArray(elem, ln, cp, st), x.Type()}
}

// newArray allocates a zeroed backing array and returns the slice over it.
func (ex *Exec) newArray(elem types.Type, ln, cp Term, st *State) Term {
	r := ex.allocRef("arr", st)
	if ex.track != nil {
		ex.track.freshSym[r.S] = true
	}
	for _, l := range leavesOf(elem) {
		name, lt := elemHeap(elem, l.Path)
		srt := ArraySort(ArraySort(sortOf(lt)))
		h := st.heap(name, srt)
		nh := ex.vc.fresh(name, srt)
		ex.vc.assume(Eq(nh, Store(h, r, zeroTerm(ArraySort(sortOf(lt))))))
		st.heaps[name] = nh
		ex.noteWrite(name, r)
	}
	return MkSlice(r, IntLit(0), ln, cp)
}

func (ex *Exec) convert(fr *Frame, x *ssa.Convert, st *State, reach Term) Val {
	v := ex.get(fr, x.X, st)
	from, to := x.X.Type(), x.Type()
	switch {
	case isInteger(from) && isInteger(to):
		return Scalar{ex.vc.define(x.Name(), wrapTo(ex.scalar(v), to)), to}
	case isInteger(from) && isFloat(to):
		return Scalar{App(SReal, "to_real", ex.scalar(v)), to}
	case isFloat(from) && isFloat(to):
		return Scalar{ex.scalar(v), to}
	case isFloat(from) && isInteger(to):
		t := ex.scalar(v)
		// truncation toward zero
		tr := Ite(Ge(t, Term{"0.0", SReal}), App(SInt, "to_int", t), Neg(App(SInt, "to_int", Neg(t))))
		ex.vc.Assumptions["float64 to integer conversion modelled as exact truncation (values out of the target range are not modelled)"] = true
		return Scalar{ex.vc.define(x.Name(), tr), to}
	case isString(from) && isSlice(to):
		elem := under(to).(*types.Slice).Elem()
		s := ex.scalar(v)
		if b, ok := under(elem).(*types.Basic); ok && b.Kind() == types.Int32 {
			return Scalar{ex.runesOf(s, elem, st), to}
		}
		sl := ex.newArray(elem, StrLen(s), StrLen(s), st)
		name, _ := elemHeap(elem, nil)
		srt := ArraySort(ArraySort(SInt))
		h := st.heap(name, srt)
		row := ex.vc.fresh("row", ArraySort(SInt))
		i := Var("i?", SInt)
		ex.vc.assume(Forall([]Bound{{"i?", SInt}}, Implies(InRange(IntLit(0), i, StrLen(s)), Eq(Select(row, i), StrAt(s, i)))))
		nh := ex.vc.fresh(name, srt)
		ex.vc.assume(Eq(nh, Store(h, SlArr(sl), row)))
		st.heaps[name] = nh
		return Scalar{sl, to}
	case isSlice(from) && isString(to):
		s := ex.scalar(v)
		elem := under(from).(*types.Slice).Elem()
		name, _ := elemHeap(elem, nil)
		h := st.heap(name, ArraySort(ArraySort(SInt)))
		// snapshot of the current contents
		return Scalar{ex.vc.define(x.Name(), MkStr(Select(h, SlArr(s)), SlOff(s), SlLen(s))), to}
	case isInteger(from) && isString(to):
		// string(rune): one byte for ASCII
		t := ex.scalar(v)
		d := ex.vc.fresh("chr", ArraySort(SInt))
		ex.vc.assume(Eq(Select(d, IntLit(0)), t))
		ex.boundsObl(fr, "ascii", x.Pos(), reach, InRange(IntLit(0), t, IntLit(128)), isCallExpr, "string(rune)")
		return Scalar{MkStr(d, IntLit(0), IntLit(1)), to}
	case isPointer(from) && isPointer(to), sortOf(from) == SInt && sortOf(to) == SInt:
		return retype(v, to)
	}
	panic(unsupported("conversion %s -> %s", shortType(from), shortType(to)))
}

func (ex *Exec) asciiObl(fr *Frame, s Term, reach Term, pos token.Pos, what string) {
	i := Var("i?", SInt)
	goal := Forall([]Bound{{"i?", SInt}}, Implies(InRange(IntLit(0), i, StrLen(s)), Lt(StrAt(s, i), IntLit(128))))
	o := ex.vc.oblige("ascii", fr.name("ascii:"+what), reach, goal, ex.where(pos))
	o.Descr = "string must be ASCII for byte-wise modelling of rune operations"
	ex.vc.assume(Implies(reach, goal))
}

func (ex *Exec) makeInterface(fr *Frame, x *ssa.MakeInterface, st *State) Val {
	v := ex.get(fr, x.X, st)
	return Scalar{ex.boxIface(v, x.X.Type()), x.Type()}
}

func (ex *Exec) boxIface(v Val, dynTy types.Type) Term {
	id := ex.vc.typeID(dynTy)
	if isStruct(dynTy) {
		sv := v.(StructV)
		b := ex.vc.fresh("box", SInt)
		for i, l := range leavesOf(dynTy) {
			f := ex.vc.declareFun(fmt.Sprintf("unbox|%s|%s", typeKey(dynTy), l.Name), []Sort{SInt}, sortOf(l.Ty))
			ex.vc.assume(Eq(App(sortOf(l.Ty), f, b), ex.scalar(leafOf(sv, l.Path))))
			_ = i
		}
		return MkIface(id, b)
	}
	t := ex.scalar(v)
	if t.Sort == SInt {
		return MkIface(id, t)
	}
	if t.Sort == SBool {
		return MkIface(id, Ite(t, IntLit(1), IntLit(0)))
	}
	f := ex.vc.declareFun("box|"+string(t.Sort), []Sort{t.Sort}, SInt)
	u := ex.vc.declareFun("unbox|"+string(t.Sort), []Sort{SInt}, t.Sort)
	b := App(SInt, f, t)
	ex.vc.assume(Eq(App(t.Sort, u, b), t))
	return MkIface(id, b)
}

func leafOf(v Val, path []int) Val {
	for _, i := range path {
		v = v.(StructV).F[i]
	}
	return v
}

func (ex *Exec) unboxIface(t Term, ty types.Type) Val {
	if isStruct(ty) {
		var build func(t2 types.Type, prefix []int) Val
		build = func(t2 types.Type, prefix []int) Val {
			if s, ok := under(t2).(*types.Struct); ok {
				out := StructV{Ty: t2, F: make([]Val, s.NumFields())}
				for i := 0; i < s.NumFields(); i++ {
					out.F[i] = build(s.Field(i).Type(), append(append([]int(nil), prefix...), i))
				}
				return out
			}
			f := ex.vc.declareFun(fmt.Sprintf("unbox|%s|%s", typeKey(ty), pathName(ty, prefix)), []Sort{SInt}, sortOf(t2))
			return Scalar{App(sortOf(t2), f, IfVal(t)), t2}
		}
		return build(ty, nil)
	}
	srt := sortOf(ty)
	switch srt {
	case SInt:
		return Scalar{IfVal(t), ty}
	case SBool:
		return Scalar{Eq(IfVal(t), IntLit(1)), ty}
	}
	u := ex.vc.declareFun("unbox|"+string(srt), []Sort{SInt}, srt)
	inner := IfVal(t)
	if h, args := splitApp(inner.S); h == quoteSym("box|"+string(srt)) && len(args) == 1 {
		return Scalar{Term{args[0], srt}, ty}
	}
	return Scalar{App(srt, u, inner), ty}
}

// implements reports, as a term over the dynamic type id, whether the dynamic type satisfies iface.
func (ex *Exec) implementsTerm(dyn Term, iface types.Type) Term {
	name := "impl|" + types.TypeString(iface, nil)
	f := ex.vc.declareFun(name, []Sort{SInt}, SBool)
	return App(SBool, f, dyn)
}

// implFacts states, for every type id used in the VC, which interfaces it implements.
func (vc *VC) implFacts() []string {
	var out []string
	var names []string
	for n := range vc.ifaces {
		names = append(names, n)
	}
	sort.Strings(names)
	for _, name := range names {
		iface, ok := under(vc.ifaces[name]).(*types.Interface)
		if !ok {
			continue
		}
		f := quoteSym("impl|" + name)
		for i, t := range vc.typeByID {
			out = append(out, fmt.Sprintf("(assert (= (%s %d) %v))", f, i+1, types.Implements(t, iface)))
		}
		out = append(out, fmt.Sprintf("(assert (not (%s 0)))", f))
	}
	return out
}

func (ex *Exec) typeAssert(fr *Frame, x *ssa.TypeAssert, st *State, reach Term) Val {
	v := ex.scalar(ex.get(fr, x.X, st))
	var ok Term
	var res Val
	// dynamic type known on this path: decide the assertion statically
	if h, a := splitApp(v.S); h == "mk-iface" && len(a) == 2 {
		if id, isLit := litVal(a[0]); isLit && id >= 1 && int(id) <= len(ex.vc.typeByID) {
			dt := ex.vc.typeByID[id-1]
			var holds bool
			if it, isIface := under(x.AssertedType).(*types.Interface); isIface {
				holds = types.Implements(dt, it)
				res = Scalar{v, x.AssertedType}
			} else {
				holds = types.Identical(dt, x.AssertedType)
				if holds {
					res = ex.unboxIface(v, x.AssertedType)
				}
			}
			if !holds {
				res = ex.zeroVal(x.AssertedType)
			}
			if x.CommaOk {
				return TupleV{E: []Val{res, Scalar{BoolLit(holds), types.Typ[types.Bool]}}}
			}
			ex.boundsObl(fr, "typeassert", x.Pos(), reach, BoolLit(holds), isTypeAssertExpr, shortType(x.AssertedType))
			return res
		}
	}
	if isInterface(x.AssertedType) {
		ex.noteIface(x.AssertedType)
		ok = ex.implementsTerm(IfDyn(v), x.AssertedType)
		res = Scalar{v, x.AssertedType}
	} else {
		ok = Eq(IfDyn(v), ex.vc.typeID(x.AssertedType))
		res = ex.unboxIface(v, x.AssertedType)
		if sc, isSc := res.(Scalar); isSc {
			ex.typeFacts(sc.T, x.AssertedType, st)
		}
	}
	if x.CommaOk {
		// value is the zero value when !ok
		z := ex.zeroVal(x.AssertedType)
		okc := ex.vc.define("ok", ok)
		return TupleV{E: []Val{ex.mergeVals("ta", []Val{res, z}, []Term{okc, Not(okc)}), Scalar{okc, types.Typ[types.Bool]}}}
	}
	ex.boundsObl(fr, "typeassert", x.Pos(), reach, ok, isTypeAssertExpr, shortType(x.AssertedType))
	return res
}

func (ex *Exec) noteIface(t types.Type) {
	if ex.vc.ifaces == nil {
		ex.vc.ifaces = map[string]types.Type{}
	}
	ex.vc.ifaces[types.TypeString(t, nil)] = t
}

// next models ranging over a string byte-wise (sound only for ASCII strings: obligation).
func (ex *Exec) next(fr *Frame, x *ssa.Next, st *State, reach Term) Val {
	if !x.IsString {
		panic(unsupported("range over map"))
	}
	s := ex.scalar(ex.get(fr, x.Iter, st))
	cur, ok := st.iters[x.Iter]
	if !ok {
		panic("internal: range iterator state missing")
	}
	pos := ex.vc.define("pos", Add(cur, IntLit(1)))
	okT := ex.vc.define("ok", Lt(pos, StrLen(s)))
	ch := ex.vc.define("ch", StrAt(s, pos))
	ex.vc.assume(Implies(okT, And(Le(IntLit(0), ch), Le(ch, IntLit(255)))))
	// byte position == rune position only while every earlier byte was ASCII
	j := Var("j?", SInt)
	prefixASCII := Forall([]Bound{{"j?", SInt}}, Implies(InRange(IntLit(0), j, pos), Lt(StrAt(s, j), IntLit(128))))
	o := ex.vc.oblige("ascii", fr.name("ascii:range"), reach, prefixASCII, ex.where(x.Pos()))
	o.Descr = "ranging over a string is modelled byte-wise: all bytes before the current position must be ASCII (a non-ASCII rune may be seen once, as a value > 127, but the loop must not continue past it)"
	ex.vc.assume(Implies(reach, prefixASCII))
	big := ex.vc.fresh("rune", SInt)
	ex.vc.assume(And(Gt(big, IntLit(127)), Le(big, IntLit(1114111))))
	ch = ex.vc.define("rv", Ite(Lt(ch, IntLit(128)), ch, big))
	st.iters[x.Iter] = Ite(okT, pos, cur)
	st.iters[x.Iter] = ex.vc.define("iter", st.iters[x.Iter])
	return TupleV{E: []Val{Scalar{okT, types.Typ[types.Bool]}, Scalar{pos, types.Typ[types.Int]}, Scalar{ch, types.Typ[types.Rune]}}}
}

// mulTerm multiplies; for two non-constant operands it also states the sign-unit facts
// (x*1, x*-1, x*0) that the solvers do not derive on their own for non-linear terms.
// Products are kept in a normal form - constant offsets are multiplied out ((x+k)*y == x*y + k*y) and the factors are
// ordered - so that i*c, c*i and (i-1)*c+c all mention the one monomial i*c and the rest is linear arithmetic.
func (ex *Exec) mulTerm(a, b Term) Term {
	_, la := isLit(a)
	_, lb := isLit(b)
	if la || lb {
		return App(SInt, "*", a, b)
	}
	a, b = foldLit(a), foldLit(b)
	if _, l := isLit(a); l {
		return App(SInt, "*", a, b)
	}
	if _, l := isLit(b); l {
		return App(SInt, "*", a, b)
	}
	if x, k, ok := splitOffset(a); ok {
		return App(SInt, "+", ex.mulTerm(x, b), App(SInt, "*", k, b))
	}
	if y, k, ok := splitOffset(b); ok {
		return App(SInt, "+", ex.mulTerm(a, y), App(SInt, "*", k, a))
	}
	if b.S < a.S {
		a, b = b, a
	}
	p := App(SInt, "*", a, b)
	if strings.Contains(a.S, "?") || strings.Contains(b.S, "?") {
		return p
	}
	if ex.vc.noDefine {
		return p
	}
	if ex.vc.mulCache == nil {
		ex.vc.mulCache = map[string]mulDef{}
	}
	if d, ok := ex.vc.mulCache[p.S]; ok && d.line < len(ex.vc.lines) && ex.vc.lines[d.line] == d.text {
		return d.name
	}
	c := ex.vc.fresh("mul", SInt)
	line := len(ex.vc.lines)
	ex.vc.assume(Eq(c, p))
	ex.vc.mulCache[p.S] = mulDef{c, line, ex.vc.lines[line]}
	p = c
	for _, pr := range [][2]Term{{a, b}, {b, a}} {
		x, y := pr[0], pr[1]
		ex.vc.assume(Implies(Eq(x, IntLit(1)), Eq(p, y)))
		ex.vc.assume(Implies(Eq(x, IntLit(-1)), Eq(p, Neg(y))))
		ex.vc.assume(Implies(Eq(x, IntLit(0)), Eq(p, IntLit(0))))
		if a.S == b.S {
			break
		}
	}
	return p
}

type mulDef struct {
	name Term
	line int
	text string
}

// foldLit folds (+ k1 k2) / (- k1 k2) of numerals.
func foldLit(t Term) Term {
	if t.Sort != SInt || !strings.HasPrefix(t.S, "(") {
		return t
	}
	n := parseSx(t.S)
	if n == nil || len(n.kids) != 3 || (n.head() != "+" && n.head() != "-") {
		return t
	}
	x, okx := litVal(n.kids[1].String())
	y, oky := litVal(n.kids[2].String())
	if !okx || !oky {
		return t
	}
	if n.head() == "+" {
		return IntLit(x + y)
	}
	return IntLit(x - y)
}

// splitOffset recognises (+ x k), (+ k x) and (- x k) with a numeral k.
func splitOffset(t Term) (x Term, k Term, ok bool) {
	if t.Sort != SInt || !strings.HasPrefix(t.S, "(") {
		return
	}
	n := parseSx(t.S)
	if n == nil || len(n.kids) != 3 {
		return
	}
	h := n.head()
	if h != "+" && h != "-" {
		return
	}
	lit := func(e *sx) (Term, bool) {
		tt := Term{e.String(), SInt}
		if _, isL := isLit(tt); isL {
			return tt, true
		}
		return tt, false
	}
	l, lok := lit(n.kids[1])
	r, rok := lit(n.kids[2])
	switch {
	case rok && !lok && h == "+":
		return l, r, true
	case rok && !lok && h == "-":
		v, _ := isLit(r)
		return l, IntLit(-v), true
	case lok && !rok && h == "+":
		return r, l, true
	}
	return
}

// runesOf models []rune(s) by the facts UTF-8 decoding guarantees about the ASCII prefix:
// while all bytes up to i are ASCII, rune i exists and equals byte i; the first non-ASCII byte j
// starts rune j, whose value is > 127 (decoded or RuneError). Nothing is said beyond that.
func (ex *Exec) runesOf(s Term, elem types.Type, st *State) Term {
	n := ex.vc.fresh("nrunes", SInt)
	ex.vc.assume(And(Le(IntLit(0), n), Le(n, StrLen(s))))
	sl := ex.newArray(elem, n, n, st)
	name, _ := elemHeap(elem, nil)
	srt := ArraySort(ArraySort(SInt))
	h := st.heap(name, srt)
	row := ex.vc.fresh("runes", ArraySort(SInt))
	i, k := Var("i?", SInt), Var("k?", SInt)
	prefix := func(upto Term) Term {
		return Forall([]Bound{{"k?", SInt}}, Implies(InRange(IntLit(0), k, upto), Lt(StrAt(s, k), IntLit(128))))
	}
	ex.vc.assume(ForallPat([]Bound{{"i?", SInt}}, Implies(And(InRange(IntLit(0), i, StrLen(s)), prefix(i)),
		And(Lt(i, n), Ite(Lt(StrAt(s, i), IntLit(128)), Eq(Select(row, i), StrAt(s, i)), Gt(Select(row, i), IntLit(127))))), [][]Term{{Select(row, i)}}))
	ex.vc.assume(ForallPat([]Bound{{"i?", SInt}}, Implies(InRange(IntLit(0), i, n), And(Le(IntLit(0), Select(row, i)), Le(Select(row, i), IntLit(1114111)))), [][]Term{{Select(row, i)}}))
	ex.vc.assume(Implies(prefix(StrLen(s)), Eq(n, StrLen(s))))
	nh := ex.vc.fresh(name, srt)
	ex.vc.assume(Eq(nh, Store(h, SlArr(sl), row)))
	st.heaps[name] = nh
	ex.vc.Assumptions["[]rune(s) and range over a string are modelled through the ASCII prefix only (rune index == byte index while all earlier bytes are < 128; the first non-ASCII rune has a value > 127)"] = true
	return sl
}
