package main

import (
	"bytes"
	"context"
	"fmt"
	"os"
	"os/exec"
	"path/filepath"
	"regexp"
	"strconv"
	"strings"
	"time"
)

// Bounded stand-ins: executable lemma clients (tests under the verif build tag inside /repo)
// run over a stated finite domain. Never counted as proved obligations.

type BoundedResult struct {
	Name       string           `json:"name"`
	Package    string           `json:"package"`
	Test       string           `json:"test"`
	Cases      int              `json:"cases"`
	Nontrivial int              `json:"nontrivial"`
	Exhaustive bool             `json:"exhaustive_over_stated_domain"`
	Domain     string           `json:"domain"`
	Passed     bool             `json:"passed"`
	Secs       float64          `json:"secs"`
	Output     string           `json:"-"`
	Findings   []BoundedFinding `json:"classified_findings,omitempty"`
}

// BoundedFinding: a class of deviations the stand-in recognises (printed as a FINDING line); it is a known finding
// only if the committed known-findings file lists it.
type BoundedFinding struct {
	ID      string `json:"id"`
	Cases   int    `json:"cases"`
	Example string `json:"example"`
}

var reFindingLine = regexp.MustCompile(`(?m)^FINDING id=(\S+) cases=(\d+) example=("(?:[^"\\]|\\.)*")`)

var reBoundedLine = regexp.MustCompile(`BOUNDED name=(\S+) cases=(\d+) nontrivial=(\d+) exhaustive=(\w+) domain="((?:[^"\\]|\\.)*)"`)

// runBounded finds TestVerifBounded_<prop>_* tests in verif_bounded_test.go files and runs them.
func runBounded(repo, prop, tier string, seed int) ([]BoundedResult, error) {
	var files []string
	filepath.Walk(repo, func(path string, info os.FileInfo, err error) error {
		if err == nil && !info.IsDir() && strings.HasPrefix(info.Name(), "verif_bounded") && strings.HasSuffix(info.Name(), "_test.go") {
			files = append(files, path)
		}
		return nil
	})
	reFunc := regexp.MustCompile(`func (TestVerifBounded_` + regexp.QuoteMeta(prop) + `_\w+)\(`)
	var out []BoundedResult
	for _, f := range files {
		data, err := os.ReadFile(f)
		if err != nil {
			continue
		}
		ms := reFunc.FindAllStringSubmatch(string(data), -1)
		if len(ms) == 0 {
			continue
		}
		dir := filepath.Dir(f)
		rel, _ := filepath.Rel(repo, dir)
		for _, m := range ms {
			test := m[1]
			ctx, cancel := context.WithTimeout(context.Background(), 20*time.Minute)
			cmd := exec.CommandContext(ctx, "go", "test", "-tags", "verif", "-vet=off", "-count=1", "-v", "-timeout", "18m", "-run", "^"+test+"$", "./"+rel)
			cmd.Dir = repo
			cmd.Env = append(os.Environ(), "GOFLAGS=-mod=mod", "GOPROXY=off", "GOSUMDB=off", "GOTOOLCHAIN=local", "VERIF_TIER="+tier, fmt.Sprintf("VERIF_SEED=%d", seed))
			var buf bytes.Buffer
			cmd.Stdout, cmd.Stderr = &buf, &buf
			t0 := time.Now()
			err := cmd.Run()
			cancel()
			res := BoundedResult{Name: test, Package: rel, Test: test, Passed: err == nil, Secs: round3(time.Since(t0).Seconds()), Output: buf.String()}
			if mm := reBoundedLine.FindStringSubmatch(buf.String()); mm != nil {
				res.Name = mm[1]
				fmt.Sscan(mm[2], &res.Cases)
				fmt.Sscan(mm[3], &res.Nontrivial)
				res.Exhaustive = mm[4] == "true"
				res.Domain = mm[5]
			} else if err == nil {
				res.Passed = false
				res.Output += "\n(no BOUNDED summary line: the test did not run)"
			}
			for _, fm := range reFindingLine.FindAllStringSubmatch(buf.String(), -1) {
				bf := BoundedFinding{ID: fm[1]}
				fmt.Sscan(fm[2], &bf.Cases)
				if ex, err := strconv.Unquote(fm[3]); err == nil {
					bf.Example = ex
				} else {
					bf.Example = fm[3]
				}
				res.Findings = append(res.Findings, bf)
			}
			out = append(out, res)
		}
	}
	return out, nil
}
