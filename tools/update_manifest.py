#!/opt/veriftools/pyvenv/bin/python3
# Refreshes MANIFEST.hooks.source_commits from /repo's "verif:" commits and validates the manifest against its schema.
import json, subprocess, sys
p = '/verif/MANIFEST.json'
d = json.load(open(p))
log = subprocess.check_output(['git', '-C', '/repo', 'log', '--format=%h %s']).decode().splitlines()
d['hooks']['source_commits'] = [l.split()[0] for l in reversed(log) if l.split(' ', 1)[1].startswith('verif:')]
json.dump(d, open(p, 'w'), indent=1, ensure_ascii=False)
try:
    import jsonschema
    jsonschema.validate(d, json.load(open('/root/.vp/MANIFEST.schema.json')))
    print('manifest valid;', len(d['checks']), 'checks,', len(d['not_applicable']), 'not applicable,', len(d['hooks']['source_commits']), 'hook commits')
except ImportError:
    print('jsonschema not available')
