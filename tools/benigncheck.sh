#!/bin/bash
# usage: benigncheck.sh <patch.diff> <name> <property>...
# Applies a behaviour-preserving patch in a scratch worktree of /repo and runs the given checks against it (VERIF_REPO);
# every check must exit 0. /repo is not touched. Prints one line per property.
export GOFLAGS=-mod=mod GOPROXY=off GOSUMDB=off GOTOOLCHAIN=local
PATCH="$1"; NAME="$2"; shift 2
WT=$(mktemp -d /tmp/benchk.XXXXXX); rmdir "$WT"
git -C /repo worktree add -q --detach "$WT" HEAD || exit 2
trap 'git -C /repo worktree remove --force "$WT" 2>/dev/null; rm -rf "$WT"' EXIT
git -C "$WT" apply "$PATCH" || { echo "$NAME: patch does not apply"; exit 2; }
(cd "$WT" && go build ./... ) || { echo "$NAME: does not build"; exit 2; }
rc=0
for P in "$@"; do
  VERIF_REPO=$WT /verif/check $P -evidence $WT/_ev.json -work $WT/_work -replays $WT/_replays > $WT/_out.$P.txt 2>&1; r=$?
  if [ $r -eq 0 ]; then echo "$NAME $P: quiet"; else echo "$NAME $P: FALSE-ALARM exit=$r"; grep -E "FAILED|unsupported|error" $WT/_out.$P.txt | head -6; rc=1; fi
done
exit $rc
