#!/bin/bash
# Rebase seeded patches that no longer apply to /repo HEAD (after fix: commits touched the same lines): 3-way apply in a
# scratch worktree, rewrite patch.diff, and re-confirm with the seed's demo test (passes on HEAD, fails with the patch).
# usage: rebase_seeds.sh [dir]   (dir: /verif/seeded by default, or /verif/benign)
export GOFLAGS=-mod=mod GOPROXY=off GOSUMDB=off GOTOOLCHAIN=local
DIR=${1:-/verif/seeded}
WT=$(mktemp -d /tmp/rebase.XXXXXX); rmdir $WT
git -C /repo worktree add -q --detach $WT HEAD || exit 2
trap 'git -C /repo worktree remove --force $WT 2>/dev/null; rm -rf $WT' EXIT
cd $WT
for d in $DIR/*/; do
  n=$(basename $d); p=$d/patch.diff; [ -f $p ] || continue
  git reset -q --hard HEAD; git clean -fdq
  git apply --check $p 2>/dev/null && continue
  if git apply --3way $p 2>/dev/null && go build ./... 2>/dev/null; then
    git diff HEAD > $WT.new
    if [ -f $d/demo_test.go ]; then
      # the demo's package directory: the directory of a non-test file declaring the demo's package
      pn=$(grep -m1 "^package " $d/demo_test.go | awk '{print $2}' | sed 's/_test$//')
      pkg=$(grep -rl --include=*.go "^package $pn\$" . | grep -v _test.go | head -1 | xargs dirname | sed 's|^\./||')
      cp $d/demo_test.go $pkg/zz_demo_test.go
      go test -vet=off -count=1 ./$pkg >/dev/null 2>&1 && r1=fail-expected-but-passed || r1=fails
      git stash -q -- . 2>/dev/null; git checkout -q HEAD -- . ; cp $d/demo_test.go $pkg/zz_demo_test.go
      go test -vet=off -count=1 ./$pkg >/dev/null 2>&1 && r0=passes || r0=FAILS-ON-HEAD
      rm -f $pkg/zz_demo_test.go; git stash drop -q 2>/dev/null
      echo "$n: rebased (3-way); demo with patch: $r1, on HEAD: $r0"
      [ "$r1" = fails ] && [ "$r0" = passes ] && cp $WT.new $p
    else
      echo "$n: rebased (3-way); no demo"
      cp $WT.new $p
    fi
    rm -f $WT.new
  else
    echo "$n: CONFLICT (rebase by hand)"
  fi
done
