package main

import (
	"fmt"
	"golang.org/x/tools/go/packages"
	"golang.org/x/tools/go/ssa"
	"golang.org/x/tools/go/ssa/ssautil"
)

func main() {
	cfg := &packages.Config{Mode: packages.LoadAllSyntax, Dir: "/repo", BuildFlags: []string{"-tags=verif"}}
	pkgs, err := packages.Load(cfg, "./feat")
	if err != nil {
		panic(err)
	}
	prog, spkgs := ssautil.AllPackages(pkgs, ssa.NaiveForm|ssa.GlobalDebug)
	prog.Build()
	fmt.Println(spkgs[0].Func("OneToZero"))
}
