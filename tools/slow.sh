#!/bin/bash
# lists obligations that took more than 2 s (run sequentially, one property at a time)
cd /verif
for id in $(python3 -c "import json;print(' '.join(c['property_id'] for c in json.load(open('/verif/MANIFEST.json'))['checks']))"); do
  ./check $id -noreplay -v 2>&1 | grep " proved \| FAILED" | awk -v id=$id '{t=$3; sub("s","",t); if (t+0 > 2.0) print id, $3, $2, $4}'
done
