#!/usr/bin/env python3
# Generates the kernel contracts of /repo/align/verif_contracts.go (the kernels are template-generated, so are their contracts).
import sys
KEEP = "ref(index) == idxRef(alpha) && let == len(a) && let >= alphaLen(alpha) && len(la) == let * let && index != nil && (forall b int :: 0 <= b && b < 256 ==> index[b] == lidx(alpha, b)) && (forall k int :: 0 <= k && k < len(a) ==> len(a[k]) == let)"
RV = "(forall k int :: 0 <= k && k < len(rSeq) ==> lidx(alpha, rSeq[k]) >= 0)"
QV = "(forall k int :: 0 <= k && k < len(qSeq) ==> lidx(alpha, qSeq[k]) >= 0)"
VALID = RV + " && " + QV
DIMS = "r == len(rSeq) + 1 && c == len(qSeq) + 1 && len(table) == r * c && fresh(table)"
ALN = "(arr(aln) == 0 && cap(aln) == 0) || (fresh(aln) && allocated(aln))"
# every reported pair is an ungapped block or a gap in exactly one sequence (or empty): the segment being traced
# has moved equally in both sequences (diag), only in the reference (up) or only in the query (left)
SHAPE = "0 <= i && 0 <= j && i <= maxI && j <= maxJ && (last == 0 ==> maxI - i == maxJ - j) && (last == 1 ==> maxJ == j) && (last == 2 ==> maxI == i) && 0 <= last && last <= 2 && (i == r - 1 && j == c - 1 ==> maxI == i && maxJ == j) && maxI < r && maxJ < c"
PAIRS = "forall k int :: 0 <= k && k < len(aln) ==> wfPair(aln[k], len(rSeq), len(qSeq))"
ENSPAIRS = "//@   ensures [pairs] result1 == nil ==> forall k int :: 0 <= k && k < len(result0) ==> wfPair(result0[k], len(rSeq), len(qSeq))\n"
LOOP1 = "0 <= idx && idx <= len(a) && let == len(a) && let >= alphaLen(alpha) && len(la) == idx * let && cap(la) >= let * let && fresh(la) && forall k int :: 0 <= k && k < idx ==> len(a[k]) == let"
ENS = ENSPAIRS + '''//@   ensures [illegal-reference] (exists k int :: 0 <= k && k < len(rSeq) && lidx(alpha, rSeq[k]) < 0) ==> result1 != nil
//@   ensures [illegal-query]     (exists k int :: 0 <= k && k < len(qSeq) && lidx(alpha, qSeq[k]) < 0) ==> result1 != nil
//@   ensures [undersized]        len(a) < alphaLen(alpha) ==> result1 != nil
//@   ensures [ragged]            (exists k int :: 0 <= k && k < len(a) && len(a[k]) != len(a)) ==> result1 != nil
'''
def nw(recv, fn):
    return f'''//@ func ({recv}).{fn}
//@   property C09
//@   requires alpha != nil && allocated(idxRef(alpha))
{ENS}//@   ensures [spans] result1 == nil ==> len(result0) > 0 && result0[0].(*featPair).a.start == 0 && result0[0].(*featPair).b.start == 0 && result0[len(result0)-1].(*featPair).a.end == len(rSeq) && result0[len(result0)-1].(*featPair).b.end == len(qSeq)
//@   loop 1 invariant {LOOP1}
//@   loop 2 invariant 0 <= idx && idx <= len(rSeq) && {KEEP} && forall k int :: 0 <= k && k < idx ==> lidx(alpha, rSeq[k]) >= 0
//@   loop 3 invariant 0 <= idx && idx <= len(qSeq) && {KEEP} && {RV} && forall k int :: 0 <= k && k < idx ==> lidx(alpha, qSeq[k]) >= 0
//@   loop 4 invariant 0 <= idx && idx <= c - 1 && {KEEP} && {VALID} && {DIMS}
//@   loop 5 invariant 1 <= i && i <= r && {KEEP} && {VALID} && {DIMS}
//@   loop 6 invariant 1 <= i && i <= r && {KEEP} && {VALID} && {DIMS}
//@   loop 7 invariant 1 <= i && i < r && 1 <= j && j <= c && {KEEP} && {VALID} && {DIMS}
//@   loop 8 invariant 0 <= i && i < r && 0 <= j && j < c && {KEEP} && {VALID} && {DIMS}
//@   loop 8 invariant [shape] {SHAPE}
//@   loop 8 invariant [aln] {ALN}
//@   loop 8 invariant [pairs] {PAIRS}
//@   loop 8 invariant [span] (len(aln) == 0 ==> maxI == r - 1 && maxJ == c - 1) && (len(aln) > 0 ==> aln[0].(*featPair).a.end == r - 1 && aln[0].(*featPair).b.end == c - 1)
//@   loop 8 writes fresh
//@   loop 9 invariant 0 <= i && j == len(aln) - 1 - i && {KEEP} && {VALID}
//@   loop 9 invariant [aln] {ALN}
//@   loop 9 invariant [pairs] {PAIRS}
//@   loop 9 invariant [span] len(aln) > 0 ==> (i == 0 ==> aln[len(aln)-1].(*featPair).a.start == 0 && aln[len(aln)-1].(*featPair).b.start == 0 && aln[0].(*featPair).a.end == len(rSeq) && aln[0].(*featPair).b.end == len(qSeq)) && (i > 0 ==> aln[0].(*featPair).a.start == 0 && aln[0].(*featPair).b.start == 0 && aln[len(aln)-1].(*featPair).a.end == len(rSeq) && aln[len(aln)-1].(*featPair).b.end == len(qSeq))
//@   loop 9 writes fresh
'''
def sw(recv, fn):
    # letters are validated by the fill loops only: all of them once both sequences are non-empty
    cv = f"(c > 1 ==> {RV}) && (r > 1 ==> {QV})"
    return f'''//@ func ({recv}).{fn}
//@   property C09
//@   requires alpha != nil && allocated(idxRef(alpha))
{ENSPAIRS}//@   ensures [illegal-reference] len(qSeq) > 0 && (exists k int :: 0 <= k && k < len(rSeq) && lidx(alpha, rSeq[k]) < 0) ==> result1 != nil
//@   ensures [illegal-query]     len(rSeq) > 0 && (exists k int :: 0 <= k && k < len(qSeq) && lidx(alpha, qSeq[k]) < 0) ==> result1 != nil
//@   ensures [undersized]        len(a) < alphaLen(alpha) ==> result1 != nil
//@   ensures [ragged]            (exists k int :: 0 <= k && k < len(a) && len(a[k]) != len(a)) ==> result1 != nil
//@   loop 1 invariant {LOOP1}
//@   loop 2 invariant 1 <= i && i <= r && 0 <= maxI && maxI < r && 0 <= maxJ && maxJ < c && {KEEP} && {DIMS}
//@   loop 2 invariant [valid] (c > 1 ==> forall k int :: 0 <= k && k < i - 1 ==> lidx(alpha, rSeq[k]) >= 0) && (i > 1 && c > 1 ==> {QV})
//@   loop 3 invariant 1 <= i && i < r && 1 <= j && j <= c
//@   loop 3 invariant [max] 0 <= maxI && maxI < r && 0 <= maxJ && maxJ < c
//@   loop 3 invariant [keep] {KEEP}
//@   loop 3 invariant [dims] {DIMS}
//@   loop 3 invariant [valid] (c > 1 ==> forall k int :: 0 <= k && k < i - 1 ==> lidx(alpha, rSeq[k]) >= 0) && (i > 1 && c > 1 ==> {QV}) && (j > 1 ==> lidx(alpha, rSeq[i-1]) >= 0) && (forall k int :: 0 <= k && k < j - 1 ==> lidx(alpha, qSeq[k]) >= 0)
//@   loop 4 invariant 0 <= i && i < r && 0 <= j && j < c && {KEEP} && {DIMS} && {cv}
//@   loop 4 invariant [shape] {SHAPE}
//@   loop 4 invariant [aln] {ALN}
//@   loop 4 invariant [pairs] {PAIRS}
//@   loop 4 writes fresh
//@   loop 5 invariant 0 <= i && j == len(aln) - 1 - i && {KEEP} && {cv} && r == len(rSeq) + 1 && c == len(qSeq) + 1
//@   loop 5 invariant [aln] {ALN}
//@   loop 5 invariant [pairs] {PAIRS}
//@   loop 5 writes fresh
'''
def fitted(recv, fn):
    return f'''//@ func ({recv}).{fn}
//@   property C09
//@   requires alpha != nil && allocated(idxRef(alpha)) && len(qSeq) > 0
{ENS}//@   loop 1 invariant {LOOP1}
//@   loop 2 invariant 0 <= idx && idx <= len(rSeq) && {KEEP} && forall k int :: 0 <= k && k < idx ==> lidx(alpha, rSeq[k]) >= 0
//@   loop 3 invariant 0 <= idx && idx <= len(qSeq) && {KEEP} && {RV} && forall k int :: 0 <= k && k < idx ==> lidx(alpha, qSeq[k]) >= 0
//@   loop 4 invariant 0 <= idx && idx <= c - 1 && {KEEP} && {VALID} && {DIMS}
//@   loop 5 invariant 1 <= i && i <= r && {KEEP} && {VALID} && {DIMS}
//@   loop 6 invariant 1 <= i && i < r && 1 <= j && j <= c && {KEEP} && {VALID} && {DIMS}
//@   loop 7 invariant j == c - 1 && i == 0 && {KEEP} && {VALID} && {DIMS}
//@   loop 7 invariant [aln] {ALN}
//@   loop 7 invariant [pairs] {PAIRS}
//@   loop 8 invariant 1 <= y && y <= r && j == c - 1 && 0 <= i && i < r && 0 <= qVal && qVal < let && {KEEP} && {VALID} && {DIMS}
//@   loop 8 invariant [aln] {ALN}
//@   loop 8 invariant [pairs] {PAIRS}
//@   loop 9 invariant 0 <= i && i < r && 0 <= j && j < c && {KEEP} && {VALID} && {DIMS}
//@   loop 9 invariant [shape] {SHAPE}
//@   loop 9 invariant [aln] {ALN}
//@   loop 9 invariant [pairs] {PAIRS}
//@   loop 9 writes fresh
//@   loop 10 invariant 0 <= i && j == len(aln) - 1 - i && {KEEP} && {VALID}
//@   loop 10 invariant [aln] {ALN}
//@   loop 10 invariant [pairs] {PAIRS}
//@   loop 10 writes fresh
'''
def affine(s):
    # affine aligners keep the matrix in a.Matrix
    return s.replace('len(a)', 'len(a.Matrix)').replace('a[k]', 'a.Matrix[k]')
def nwaffine(recv, fn):
    return affine(f'''//@ func ({recv}).{fn}
//@   property C09
//@   maypanic
//@   requires alpha != nil && allocated(idxRef(alpha)) && len(rSeq) > 0 && len(qSeq) > 0
{ENS}//@   ensures [spans] result1 == nil ==> len(result0) > 0 && result0[0].(*featPair).a.start == 0 && result0[0].(*featPair).b.start == 0 && result0[len(result0)-1].(*featPair).a.end == len(rSeq) && result0[len(result0)-1].(*featPair).b.end == len(qSeq)
//@   loop 1 invariant {LOOP1}
//@   loop 2 invariant 0 <= idx && idx <= len(rSeq) && {KEEP} && forall k int :: 0 <= k && k < idx ==> lidx(alpha, rSeq[k]) >= 0
//@   loop 3 invariant 0 <= idx && idx <= len(qSeq) && {KEEP} && {RV} && forall k int :: 0 <= k && k < idx ==> lidx(alpha, qSeq[k]) >= 0
//@   loop 4 invariant 0 <= idx && idx <= c - 2 && {KEEP} && {VALID} && {DIMS}
//@   loop 5 invariant 2 <= i && i <= r && {KEEP} && {VALID} && {DIMS}
//@   loop 6 invariant 1 <= i && i <= r && {KEEP} && {VALID} && {DIMS}
//@   loop 7 invariant 1 <= i && i < r && 1 <= j && j <= c && {KEEP} && {VALID} && {DIMS}
//@   loop 8 invariant 0 <= idx && idx <= 2 && 0 <= layer && layer <= 2 && {KEEP} && {VALID} && {DIMS}
//@   loop 8 invariant [aln] {ALN}
//@   loop 8 invariant [pairs] {PAIRS}
//@   loop 9 invariant 0 <= i && i < r && 0 <= j && j < c && 0 <= layer && layer <= 2 && {KEEP} && {VALID} && {DIMS}
//@   loop 9 invariant [shape] {SHAPE}
//@   loop 9 invariant [aln] {ALN}
//@   loop 9 invariant [pairs] {PAIRS}
//@   loop 9 invariant [span] (len(aln) == 0 ==> maxI == r - 1 && maxJ == c - 1) && (len(aln) > 0 ==> aln[0].(*featPair).a.end == r - 1 && aln[0].(*featPair).b.end == c - 1)
//@   loop 9 writes fresh
//@   loop 10 invariant 0 <= i && j == len(aln) - 1 - i && {KEEP} && {VALID}
//@   loop 10 invariant [aln] {ALN}
//@   loop 10 invariant [pairs] {PAIRS}
//@   loop 10 invariant [span] len(aln) > 0 ==> (i == 0 ==> aln[len(aln)-1].(*featPair).a.start == 0 && aln[len(aln)-1].(*featPair).b.start == 0 && aln[0].(*featPair).a.end == len(rSeq) && aln[0].(*featPair).b.end == len(qSeq)) && (i > 0 ==> aln[0].(*featPair).a.start == 0 && aln[0].(*featPair).b.start == 0 && aln[len(aln)-1].(*featPair).a.end == len(rSeq) && aln[len(aln)-1].(*featPair).b.end == len(qSeq))
//@   loop 10 writes fresh
''')
def swaffine(recv, fn):
    base = sw(recv, fn).replace('//@   property C09\n', '//@   property C09\n//@   maypanic\n', 1)
    base = base.replace("//@   loop 4 invariant 0 <= i && i < r && 0 <= j && j < c &&", "//@   loop 4 invariant 0 <= i && i < r && 0 <= j && j < c && 0 <= layer && layer <= 2 &&")
    return affine(base)
def fittedaffine(recv, fn):
    return affine(f'''//@ func ({recv}).{fn}
//@   property C09
//@   maypanic
//@   requires alpha != nil && allocated(idxRef(alpha)) && len(rSeq) > 0 && len(qSeq) > 0
{ENS}//@   loop 1 invariant {LOOP1}
//@   loop 2 invariant 0 <= idx && idx <= len(rSeq) && {KEEP} && forall k int :: 0 <= k && k < idx ==> lidx(alpha, rSeq[k]) >= 0
//@   loop 3 invariant 0 <= idx && idx <= len(qSeq) && {KEEP} && {RV} && forall k int :: 0 <= k && k < idx ==> lidx(alpha, qSeq[k]) >= 0
//@   loop 4 invariant 0 <= idx && idx <= c - 2 && {KEEP} && {VALID} && {DIMS}
//@   loop 5 invariant 2 <= i && i <= r && {KEEP} && {VALID} && {DIMS}
//@   loop 6 invariant 1 <= i && i <= r && {KEEP} && {VALID} && {DIMS}
//@   loop 7 invariant 1 <= i && i < r && 1 <= j && j <= c && {KEEP} && {VALID} && {DIMS}
//@   loop 8 invariant 1 <= y && y <= r && j == c - 1 && 0 <= i && i < r && layer == 0 && {KEEP} && {VALID} && {DIMS}
//@   loop 8 invariant [aln] {ALN}
//@   loop 8 invariant [pairs] {PAIRS}
//@   loop 9 invariant 0 <= i && i < r && 0 <= j && j < c && 0 <= layer && layer <= 2 && {KEEP} && {VALID} && {DIMS}
//@   loop 9 invariant [shape] {SHAPE}
//@   loop 9 invariant [aln] {ALN}
//@   loop 9 invariant [pairs] {PAIRS}
//@   loop 9 writes fresh
//@   loop 10 invariant 0 <= i && j == len(aln) - 1 - i && {KEEP} && {VALID}
//@   loop 10 invariant [aln] {ALN}
//@   loop 10 invariant [pairs] {PAIRS}
//@   loop 10 writes fresh
''')

# ---- C08: the dynamic programming table equals the optimum defined by the recurrence ----
# optimum spec functions: one per kernel (receiver and letter type); cell() is a marker that lets the definitional
# axiom fire only for the cell a proof obligation is about (proving(cell(i, j)) is dropped where a clause is assumed).
TB = {'nw': (8, 9), 'sw': (4, 5), 'fitted': (9, 10)}
import os
NO_PANIC = os.environ.get('ALIGN_NO_PANIC') == '1'  # prove the traceback's 'no path' panic unreachable (slow: 7-49 s per kernel)
def opt_name(kind, ql):
    return {'nw': 'nwOpt', 'sw': 'swOpt', 'fitted': 'fitOpt'}[kind] + ('Q' if ql else '')
def opt_specs():
    out = ["// ---- the dynamic programming tables of the linear-gap kernels (C08) ----",
           "// <kind>Opt(a, alpha, rSeq, qSeq, i, j): the optimum score of aligning rSeq[:i] with qSeq[:j] as the textbook recurrence",
           "// defines it (global: gaps everywhere cost the matrix' gap column/row; local: floored at 0; fitted: a free reference",
           "// prefix). cell(i, j) is a marker, true everywhere: the recurrence is unfolded only for marked cells.",
           "//@ spec cell(i int, j int) bool",
           "//@ axiom forall i int, j int {cell(i, j)} :: cell(i, j)",
           "// The traceback addresses the table through rowbase(i, c) == i*c: the definition is unfolded only for marked rows",
           "// (defmark), neighbouring rows are related by the linear consequence rowbase(i+1, c) == rowbase(i, c) + c (instantiated",
           "// only for two row terms that already exist), and the invariant about the whole table fires only for wanted cells.",
           "//@ spec want(i int, j int) bool",
           "//@ axiom forall i int, j int {want(i, j)} :: want(i, j)",
           "//@ spec succ(k int, k2 int) bool",
           "//@ axiom forall k int, k2 int {succ(k, k2)} :: succ(k, k2)",
           "//@ spec touch(v int) bool",
           "//@ axiom forall v int {touch(v)} :: touch(v)",
           "//@ spec defmark(i int) bool",
           "//@ axiom forall i int {defmark(i)} :: defmark(i)",
           "//@ spec rowbase(i int, c int) int",
           "//@ axiom forall i int, c int {rowbase(i, c), defmark(i)} :: rowbase(i, c) == i * c",
           "//@ axiom forall i int, i3 int, c int {rowbase(i, c), rowbase(i3, c)} :: i3 == i + 1 ==> rowbase(i3, c) == rowbase(i, c) + c"]
    for kind, recv in (('nw', 'NW'), ('sw', 'SW'), ('fitted', 'Fitted')):
        for ql in (False, True):
            f = opt_name(kind, ql)
            lt = 'alphabet.QLetters' if ql else 'alphabet.Letters'
            L = '.L' if ql else ''
            O = lambda i, j: f"{f}(a, alpha, rSeq, qSeq, {i}, {j})"
            sub = f"a[lidx(alpha, rSeq[i-1]{L})][lidx(alpha, qSeq[j-1]{L})]"
            gr = f"a[lidx(alpha, rSeq[i-1]{L})][0]"
            gq = f"a[0][lidx(alpha, qSeq[j-1]{L})]"
            inner = f"max(max({O('i-1','j-1')} + {sub}, {O('i-1','j')} + {gr}), {O('i','j-1')} + {gq})"
            if kind == 'nw':
                body = f"(i == 0 && j == 0 ==> {O('i','j')} == 0) && (i == 0 && j > 0 ==> {O('i','j')} == {O('0','j-1')} + {gq}) && (i > 0 && j == 0 ==> {O('i','j')} == {O('i-1','0')} + {gr}) && (i > 0 && j > 0 ==> {O('i','j')} == {inner})"
            elif kind == 'fitted':
                body = f"(j == 0 ==> {O('i','j')} == 0) && (i == 0 && j > 0 ==> {O('i','j')} == {O('0','j-1')} + {gq}) && (i > 0 && j > 0 ==> {O('i','j')} == {inner})"
            else:
                body = f"((i == 0 || j == 0) ==> {O('i','j')} == 0) && (i > 0 && j > 0 ==> {O('i','j')} == max(0, {inner}))"
            out.append(f"//@ spec {f}(a {recv}, alpha alphabet.Alphabet, rSeq {lt}, qSeq {lt}, i int, j int) int")
            out.append(f"//@ axiom forall a {recv}, alpha alphabet.Alphabet, rSeq {lt}, qSeq {lt}, i int, j int {{{O('i','j')}, cell(i, j)}} :: {body}")
    return "\n".join(out) + "\n\n"
def dp_lines(kind, ql):
    f = opt_name(kind, ql)
    O = lambda i, j: f"{f}(a, alpha, rSeq, qSeq, {i}, {j})"
    def Q(vars_, trig, cond, i, j, idx):
        return f"forall {vars_} {{{trig}}} :: {cond} ==> proving(cell({i}, {j})) && table[{idx}] == {O(i, j)}"
    LA = lambda lim: f"forall x int, y int {{old(a[x][y])}} :: 0 <= x && x < {lim} && 0 <= y && y < let ==> la[x*let+y] == old(a[x][y])"
    row0 = lambda lim: Q('j2 int', O('0', 'j2'), f'0 <= j2 && j2 {lim}', '0', 'j2', 'j2')
    col0 = lambda lim: Q('i2 int', O('i2', '0'), f'0 <= i2 && i2 < {lim}', 'i2', '0', 'i2*c')
    done = lambda lim: Q('i2 int, j2 int', O('i2', 'j2'), f'0 <= i2 && i2 < {lim} && 0 <= j2 && j2 < c', 'i2', 'j2', 'i2*c+j2')
    prev = Q('j2 int', O('i-1', 'j2'), '0 <= j2 && j2 < c', 'i-1', 'j2', '(i-1)*c+j2')
    # the current row: all but the newest cell (only framing to prove), and the newest cell on its own (the recurrence step)
    cur = Q('j2 int', O('i', 'j2'), '0 <= j2 && j2 < j - 1', 'i', 'j2', 'i*c+j2')
    new = f"proving(cell(i, j-1)) && table[i*c+j-1] == {O('i', 'j-1')}"
    out = []
    A = lambda n, lab, e: out.append(f"//@   loop {n} invariant [{lab}] {e}")
    if kind == 'nw':
        la_loops, r0, c0, outer, inner, after = (2, 3, 4, 5, 6, 7), 4, 5, 6, 7, (8,)
    elif kind == 'fitted':
        la_loops, r0, c0, outer, inner, after = (2, 3, 4, 5, 6), 4, None, 5, 6, (7, 8, 9)
    else:
        la_loops, r0, c0, outer, inner, after = (2, 3), None, None, 2, 3, (4,)
    A(1, 'la', LA('idx'))
    out.append("//@   loop 1 writes fresh")
    # every loop from the table fill on restates what it needs: its obligations are proved without the quantified facts
    # collected before its head (smaller, more stable queries)
    for n in sorted(set([x for x in (r0, c0, outer, inner) if x])):
        out.append(f"//@   loop {n} isolate")
    for n in la_loops:
        A(n, 'la', LA('let'))
    if r0:
        A(r0, 'dp-row0', row0('<= idx'))
        if not c0:
            # the first column stays as make() left it
            A(r0, 'dp-zero', "forall k int :: idx < k && k < len(table) ==> table[k] == 0")
    if c0:
        A(c0, 'dp-row0', row0('< c'))
        A(c0, 'dp-col0', col0('i'))
        A(c0, 'dp-prev', f"proving(cell(i-1, 0)) && table[(i-1)*c] == {O('i-1', '0')}")
    for n in (outer, inner):
        A(n, 'dp-col0', col0('r'))
        A(n, 'dp-done', done('i'))
        A(n, 'dp-prev', prev)
    A(inner, 'dp-cur', cur)
    A(inner, 'dp-new', new)
    for n in after:
        if kind in TB and n == TB[kind][0]:
            A(n, 'dp', f"forall i2 int, j2 int {{want(i2, j2)}} :: 0 <= i2 && i2 < r && 0 <= j2 && j2 < c ==> proving(want(i2, j2)) && proving(defmark(i2)) && proving(cell(i2, j2)) && table[rowbase(i2, c)+j2] == {O('i2', 'j2')}")
            A(n, 'base', "proving(defmark(i)) && rowbase(i, c) == i*c && proving(defmark(0)) && rowbase(0, c) == 0")
            A(n, 'wants', "want(i, j) && want(i-1, j-1) && want(i-1, j) && want(i, j-1) && want(0, j)")
        else:
            A(n, 'dp', done('r'))
    return "\n".join(out) + "\n"

# ---- C08/C09: the traceback reports, for every pair, the difference of the optimum at its two corners, and consecutive
# pairs abut; with the spans this makes the total score telescope to the optimum (lemma verifLemmaTotal*) ----
def fp(e, f):
    return f"{e}.(*featPair).{f}"
def tb_lines(kind, ql, trace, rev):
    f = opt_name(kind, ql)
    O = lambda i, j: f"{f}(a, alpha, rSeq, qSeq, {i}, {j})"
    sc = lambda e: f"{fp(e,'score')} == {O(fp(e,'a.end'), fp(e,'b.end'))} - {O(fp(e,'a.start'), fp(e,'b.start'))}"
    out = []
    A = lambda n, lab, e: out.append(f"//@   loop {n} invariant [{lab}] {e}")
    out.append(f"//@   loop {trace} isolate")
    out.append(f"//@   loop {rev} isolate")
    A(trace, 'seg', f"score == {O('maxI','maxJ')} - {O('i','j')}")
    # the reported pairs are objects that exist already: allocating the next one does not touch them
    A(trace, 'alloc', "forall k int {aln[k]} :: 0 <= k && k < len(aln) ==> allocated(aln[k].(*featPair)) && aln[k].(*featPair) != nil")
    A(rev, 'alloc', "forall k int {aln[k]} :: 0 <= k && k < len(aln) ==> aln[k].(*featPair) != nil")
    A(trace, 'scores', f"forall k int {{aln[k]}} :: 0 <= k && k < len(aln) ==> {sc('aln[k]')}")
    A(trace, 'chain', f"forall k int, k2 int {{succ(k, k2)}} :: 0 <= k && k2 == k + 1 && k2 < len(aln) ==> proving(succ(k, k2)) && {fp('aln[k2]','a.end')} == {fp('aln[k]','a.start')} && {fp('aln[k2]','b.end')} == {fp('aln[k]','b.start')}")
    A(trace, 'tail', f"forall k int {{aln[k]}} :: 0 <= k && k == len(aln) - 1 ==> {fp('aln[k]','a.start')} == maxI && {fp('aln[k]','b.start')} == maxJ")
    # with the table invariant, the flattened matrix and the marked current cell the traceback's "no path" panic is
    # unreachable: the linear-gap kernels never panic (no maypanic in their contracts)
    if NO_PANIC:
        A(trace, 'la', "forall x int, y int {old(a[x][y])} :: 0 <= x && x < let && 0 <= y && y < let ==> la[x*let+y] == old(a[x][y])")
        if kind == 'nw':
            A(trace, 'here', "cell(i, j)")
    A(trace, 'origin', f"proving(cell(0, 0)) && {O('0','0')} == 0")
    A(rev, 'scores', f"forall k int {{aln[k]}} :: 0 <= k && k < len(aln) ==> {sc('aln[k]')}")
    # the reversal: positions below i and above j are in their final order, the middle still in traceback order
    A(rev, 'chain-done', f"forall k int, k2 int {{succ(k, k2)}} :: 0 <= k && k2 == k + 1 && k2 < len(aln) && (k2 < i || k > j) ==> proving(succ(k, k2)) && {fp('aln[k]','a.end')} == {fp('aln[k2]','a.start')} && {fp('aln[k]','b.end')} == {fp('aln[k2]','b.start')}")
    A(rev, 'chain-todo', f"forall k int, k2 int {{succ(k, k2)}} :: i <= k && k2 == k + 1 && k2 <= j ==> proving(succ(k, k2)) && {fp('aln[k2]','a.end')} == {fp('aln[k]','a.start')} && {fp('aln[k2]','b.end')} == {fp('aln[k]','b.start')}")
    # the joints between the reversed ends and the middle, and the meeting point: said for all index pairs with the
    # positions as arithmetic guards (no equality between index terms has to reach the congruence closure)
    ab = lambda x, y: f"{fp('aln['+x+']','a.end')} == {fp('aln['+y+']','a.start')} && {fp('aln['+x+']','b.end')} == {fp('aln['+y+']','b.start')}"
    A(rev, 'chain-joint', f"forall k int, k2 int {{aln[k], aln[k2]}} :: i > 0 && i <= j && 0 <= k && k < len(aln) && 0 <= k2 && k2 < len(aln) && ((k == i - 1 && k2 == j) || (k == i && k2 == j + 1)) ==> proving(succ(i-1, i)) && proving(succ(j, j+1)) && {ab('k','k2')}")
    A(rev, 'chain-met', f"forall k int, k2 int {{aln[k], aln[k2]}} :: i > 0 && i == j + 1 && k == j && k2 == i && 0 <= k && k2 < len(aln) ==> proving(succ(i-1, i)) && proving(succ(j, j+1)) && {ab('k','k2')}")
    return "\n".join(out) + "\n"
def tb_ensures(kind, ql):
    f = opt_name(kind, ql)
    O = lambda i, j: f"{f}(a, alpha, rSeq, qSeq, {i}, {j})"
    e = 'result0[k]'
    return (f"//@   ensures [objects] result1 == nil ==> forall k int {{result0[k]}} :: 0 <= k && k < len(result0) ==> result0[k].(*featPair) != nil\n"
            f"//@   ensures [scores] result1 == nil ==> forall k int {{result0[k]}} :: 0 <= k && k < len(result0) ==> {fp(e,'score')} == {O(fp(e,'a.end'), fp(e,'b.end'))} - {O(fp(e,'a.start'), fp(e,'b.start'))}\n"
            f"//@   ensures [chain] result1 == nil ==> forall k int, k2 int {{succ(k, k2)}} :: 0 <= k && k2 == k + 1 && k2 < len(result0) ==> proving(succ(k, k2)) && {fp('result0[k]','a.end')} == {fp('result0[k2]','a.start')} && {fp('result0[k]','b.end')} == {fp('result0[k2]','b.start')}\n")

# ---- Smith-Waterman (C08): the traceback starts at a cell holding the largest value of the whole table (for matrices
# whose gap scores are not positive) and stops at a cell whose optimum is zero ----
def sw_lines(ql):
    f = opt_name('sw', ql)
    O = lambda i, j: f"{f}(a, alpha, rSeq, qSeq, {i}, {j})"
    # gap scores are not positive, said for the letters' indices so that the index terms of the code trigger it
    NP = "(forall b int {lidx(alpha, b)} :: lidx(alpha, b) >= 0 ==> old(a[lidx(alpha, b)][0]) <= 0 && old(a[0][lidx(alpha, b)]) <= 0)"
    rng = "0 <= i2 && i2 < r && 0 <= j2 && j2 < c"
    out = []
    A = lambda n, lab, e: out.append(f"//@   loop {n} invariant [{lab}] {e}")
    for n in (2, 3):
        A(n, 'bestv', f"maxS >= 0 && proving(cell(maxI, maxJ)) && maxS == {O('maxI', 'maxJ')}")
    A(2, 'best', f"{NP} ==> forall i2 int, j2 int {{{O('i2','j2')}}} :: {rng} && (i2 < i || j2 == 0) ==> proving(cell(i2, j2)) && {O('i2','j2')} <= maxS")
    A(3, 'best', f"{NP} ==> forall i2 int, j2 int {{{O('i2','j2')}}} :: {rng} && (i2 < i || j2 == 0 || (i2 == i && j2 < j - 1)) ==> proving(cell(i2, j2)) && {O('i2','j2')} <= maxS")
    A(3, 'newbest', f"{NP} ==> proving(touch({O('i', 'j-1')})) && proving(cell(i, j-1)) && table[i*c+j-1] <= maxS")
    A(4, 'best', f"{NP} ==> forall i2 int, j2 int {{{O('i2','j2')}}} :: {rng} ==> {O('i2','j2')} <= maxS")
    A(4, 'bestcell', f"(len(aln) == 0 ==> {O('maxI','maxJ')} == maxS) && (forall k int {{aln[k]}} :: k == 0 && k < len(aln) ==> {O(fp('aln[k]','a.end'), fp('aln[k]','b.end'))} == maxS)")
    A(4, 'here', "cell(i, j)")
    A(5, 'best', f"{NP} ==> forall i2 int, j2 int {{{O('i2','j2')}}} :: {rng} ==> {O('i2','j2')} <= maxS")
    A(5, 'ends', f"len(aln) > 0 && (i == 0 ==> {O(fp('aln[0]','a.end'), fp('aln[0]','b.end'))} == maxS && {O(fp('aln[len(aln)-1]','a.start'), fp('aln[len(aln)-1]','b.start'))} == 0) && (i > 0 ==> {O(fp('aln[len(aln)-1]','a.end'), fp('aln[len(aln)-1]','b.end'))} == maxS && {O(fp('aln[0]','a.start'), fp('aln[0]','b.start'))} == 0)")
    return "\n".join(out) + "\n"
def sw_ensures(ql):
    f = opt_name('sw', ql)
    O = lambda i, j: f"{f}(a, alpha, rSeq, qSeq, {i}, {j})"
    NP = "(forall x int {old(a[x][0])} :: 0 <= x && x < len(a) ==> old(a[x][0]) <= 0) && (forall x int {old(a[0][x])} :: 0 <= x && x < len(a) ==> old(a[0][x]) <= 0)"
    last = 'result0[len(result0)-1]'
    return (f"//@   ensures [nonempty] result1 == nil ==> len(result0) > 0\n"
            f"//@   ensures [zero] result1 == nil ==> {O(fp('result0[0]','a.start'), fp('result0[0]','b.start'))} == 0\n"
            f"//@   ensures [best] result1 == nil && {NP} ==> forall i2 int, j2 int {{{O('i2','j2')}}} :: 0 <= i2 && i2 <= len(rSeq) && 0 <= j2 && j2 <= len(qSeq) ==> {O('i2','j2')} <= {O(fp(last,'a.end'), fp(last,'b.end'))}\n")

# ---- the fitted aligner (C08): the description ends at the end of the query and starts at a cell whose optimum is zero ----
def fitted_lines(ql):
    f = opt_name('fitted', ql)
    O = lambda i, j: f"{f}(a, alpha, rSeq, qSeq, {i}, {j})"
    out = []
    A = lambda n, lab, e: out.append(f"//@   loop {n} invariant [{lab}] {e}")
    A(9, 'here', "cell(i, j)")
    A(9, 'qend', f"(len(aln) == 0 ==> maxJ == c - 1) && (forall k int {{aln[k]}} :: k == 0 && k < len(aln) ==> {fp('aln[k]','b.end')} == c - 1)")
    A(10, 'ends', f"len(aln) > 0 && (i == 0 ==> {fp('aln[0]','b.end')} == len(qSeq) && {O(fp('aln[len(aln)-1]','a.start'), fp('aln[len(aln)-1]','b.start'))} == 0) && (i > 0 ==> {fp('aln[len(aln)-1]','b.end')} == len(qSeq) && {O(fp('aln[0]','a.start'), fp('aln[0]','b.start'))} == 0)")
    return "\n".join(out) + "\n"
def fitted_ensures(ql):
    f = opt_name('fitted', ql)
    O = lambda i, j: f"{f}(a, alpha, rSeq, qSeq, {i}, {j})"
    return (f"//@   ensures [nonempty] result1 == nil ==> len(result0) > 0\n"
            f"//@   ensures [zero] result1 == nil ==> {O(fp('result0[0]','a.start'), fp('result0[0]','b.start'))} == 0\n"
            f"//@   ensures [qend] result1 == nil ==> {fp('result0[len(result0)-1]','b.end')} == len(qSeq)\n")

# ---- the Align entry points of the linear-gap aligners: what the kernels guarantee, said of the arguments' own
# slices and alphabet (C08/C09 at the public interface) ----
def wrapper(kind, recv):
    req = "reference != nil && query != nil" + (" && sliceLen(query) > 0" if kind == 'fitted' else "")
    out = [f"//@ func ({recv}).Align", "//@   property C09", "//@   property C08", "//@   maypanic", f"//@   requires {req}",
           "//@   ensures [no-alphabet] alphaOf(reference) == nil ==> result1 != nil",
           "//@   ensures [alphabets]   alphaOf(reference) != alphaOf(query) ==> result1 != nil",
           "//@   ensures [types]       sliceKind(reference) != sliceKind(query) ==> result1 != nil"]
    for ql in (False, True):
        T = 'alphabet.QLetters' if ql else 'alphabet.Letters'
        tag = 'q' if ql else 'l'
        ens = ENSPAIRS + tb_ensures(kind, ql)
        if kind == 'nw':
            ens += "//@   ensures [spans] result1 == nil ==> len(result0) > 0 && result0[0].(*featPair).a.start == 0 && result0[0].(*featPair).b.start == 0 && result0[len(result0)-1].(*featPair).a.end == len(rSeq) && result0[len(result0)-1].(*featPair).b.end == len(qSeq)\n"
        if kind == 'sw':
            ens += sw_ensures(ql)
        if kind == 'fitted':
            ens += fitted_ensures(ql)
        for line in ens.strip().split("\n"):
            assert line.startswith("//@   ensures [")
            lab, body = line[len("//@   ensures ["):].split("] ", 1)
            body = body.replace("rSeq", f"sliceOf(reference).({T})").replace("qSeq", f"sliceOf(query).({T})").replace("alpha,", "alphaOf(reference),")
            out.append(f"//@   ensures [{lab}-{tag}] typeis(sliceOf(reference), {T}) && typeis(sliceOf(query), {T}) ==> ({body})")
    return "\n".join(out) + "\n"
def q(s):
    # quality letters: the letter of element k is rSeq[k].L
    return s.replace('rSeq[k]', 'rSeq[k].L').replace('qSeq[k]', 'qSeq[k].L').replace('rSeq[i-1]', 'rSeq[i-1].L')
out = [opt_specs()]
for mk, recv, kind in ((nw, 'NW', 'nw'), (sw, 'SW', 'sw'), (fitted, 'Fitted', 'fitted')):
    for ql, fn in ((False, 'alignLetters'), (True, 'alignQLetters')):
        c = mk(recv, fn)
        if not NO_PANIC:
            c = c.replace('//@   property C09\n', '//@   property C09\n//@   maypanic\n', 1)
        if ql:
            c = q(c)
        c = c.replace('//@   property C09\n', '//@   property C09\n//@   property C08\n') + dp_lines(kind, ql)
        if kind in TB:
            ens = tb_ensures(kind, ql) + (sw_ensures(ql) if kind == 'sw' else '') + (fitted_ensures(ql) if kind == 'fitted' else '')
            c = c.replace('//@   loop 1 invariant', ens + '//@   loop 1 invariant', 1) + tb_lines(kind, ql, *TB[kind]) + (sw_lines(ql) if kind == 'sw' else '') + (fitted_lines(ql) if kind == 'fitted' else '')
        out.append(c)
for kind, recv in (('nw', 'NW'), ('sw', 'SW'), ('fitted', 'Fitted')):
    out.append(wrapper(kind, recv))
out.append(nwaffine('NWAffine', 'alignLetters'))
out.append(q(nwaffine('NWAffine', 'alignQLetters')))
out.append(swaffine('SWAffine', 'alignLetters'))
out.append(q(swaffine('SWAffine', 'alignQLetters')))
out.append(fittedaffine('FittedAffine', 'alignLetters'))
out.append(q(fittedaffine('FittedAffine', 'alignQLetters')))
sys.stdout.write('\n'.join(out))
