package main

import (
	"fmt"
	"strconv"
	"strings"
	"unicode"
)

// ---- spec expression AST ----

type Expr interface{ String() string }

type (
	EIdent  struct{ Name string }
	EInt    struct{ V string } // decimal / hex literal text
	EFloat  struct{ V string }
	EChar   struct{ V int64 }
	EString struct{ V string }
	EBool   struct{ V bool }
	ENil    struct{}
	EUnary  struct {
		Op string
		X  Expr
	}
	EBinary struct {
		Op   string
		X, Y Expr
	}
	ECond  struct{ C, A, B Expr }
	EField struct {
		X    Expr
		Name string
	}
	EIndex struct{ X, I Expr }
	ESlice struct{ X, Lo, Hi Expr }
	ECall  struct {
		Fun  Expr
		Args []Expr
	}
	EAssert struct { // x.(T)
		X Expr
		T TypeExpr
	}
	EQuant struct {
		Forall   bool
		Vars     []QVar
		Body     Expr
		Triggers [][]Expr // explicit {t1, t2} groups
	}
	EOld struct{ X Expr }
)

type QVar struct {
	Name string
	T    TypeExpr
}

// TypeExpr is a (possibly qualified, possibly pointer/slice) type name.
type TypeExpr struct {
	Ptr   bool
	Slice bool
	Pkg   string
	Name  string
}

func (t TypeExpr) String() string {
	s := ""
	if t.Slice {
		s += "[]"
	}
	if t.Ptr {
		s += "*"
	}
	if t.Pkg != "" {
		s += t.Pkg + "."
	}
	return s + t.Name
}

func (e EIdent) String() string  { return e.Name }
func (e EInt) String() string    { return e.V }
func (e EFloat) String() string  { return e.V }
func (e EChar) String() string   { return strconv.QuoteRune(rune(e.V)) }
func (e EString) String() string { return strconv.Quote(e.V) }
func (e EBool) String() string   { return fmt.Sprint(e.V) }
func (e ENil) String() string    { return "nil" }
func (e EUnary) String() string  { return e.Op + e.X.String() }
func (e EBinary) String() string {
	return "(" + e.X.String() + " " + e.Op + " " + e.Y.String() + ")"
}
func (e ECond) String() string {
	return "(" + e.C.String() + " ? " + e.A.String() + " : " + e.B.String() + ")"
}
func (e EField) String() string { return e.X.String() + "." + e.Name }
func (e EIndex) String() string { return e.X.String() + "[" + e.I.String() + "]" }
func (e ESlice) String() string {
	lo, hi := "", ""
	if e.Lo != nil {
		lo = e.Lo.String()
	}
	if e.Hi != nil {
		hi = e.Hi.String()
	}
	return e.X.String() + "[" + lo + ":" + hi + "]"
}
func (e ECall) String() string {
	var a []string
	for _, x := range e.Args {
		a = append(a, x.String())
	}
	return e.Fun.String() + "(" + strings.Join(a, ", ") + ")"
}
func (e EAssert) String() string { return e.X.String() + ".(" + e.T.String() + ")" }
func (e EQuant) String() string {
	q := "exists"
	if e.Forall {
		q = "forall"
	}
	var vs []string
	for _, v := range e.Vars {
		vs = append(vs, v.Name+" "+v.T.String())
	}
	return "(" + q + " " + strings.Join(vs, ", ") + " :: " + e.Body.String() + ")"
}
func (e EOld) String() string { return "old(" + e.X.String() + ")" }

// ---- lexer ----

type tok struct {
	kind string // ident int float char string op eof
	text string
	ival int64
}

type lexer struct {
	src  string
	pos  int
	toks []tok
}

var ops3 = []string{"<==>", "==>", "&&", "||", "==", "!=", "<=", ">=", "<<", ">>", "::", "&^"}

func lex(src string) ([]tok, error) {
	var toks []tok
	i := 0
	for i < len(src) {
		c := src[i]
		switch {
		case c == ' ' || c == '\t' || c == '\n' || c == '\r':
			i++
		case unicode.IsLetter(rune(c)) || c == '_':
			j := i
			for j < len(src) && (unicode.IsLetter(rune(src[j])) || unicode.IsDigit(rune(src[j])) || src[j] == '_') {
				j++
			}
			toks = append(toks, tok{kind: "ident", text: src[i:j]})
			i = j
		case c >= '0' && c <= '9':
			j := i
			isFloat := false
			if c == '0' && j+1 < len(src) && (src[j+1] == 'x' || src[j+1] == 'X') {
				j += 2
				for j < len(src) && strings.ContainsRune("0123456789abcdefABCDEF", rune(src[j])) {
					j++
				}
			} else {
				for j < len(src) && (src[j] >= '0' && src[j] <= '9') {
					j++
				}
				if j+1 < len(src) && src[j] == '.' && src[j+1] >= '0' && src[j+1] <= '9' {
					isFloat = true
					j++
					for j < len(src) && (src[j] >= '0' && src[j] <= '9') {
						j++
					}
				}
			}
			if isFloat {
				toks = append(toks, tok{kind: "float", text: src[i:j]})
			} else {
				toks = append(toks, tok{kind: "int", text: src[i:j]})
			}
			i = j
		case c == '\'':
			j := i + 1
			for j < len(src) && src[j] != '\'' {
				if src[j] == '\\' {
					j++
				}
				j++
			}
			if j >= len(src) {
				return nil, fmt.Errorf("unterminated char literal")
			}
			r, _, _, err := strconv.UnquoteChar(src[i+1:j], '\'')
			if err != nil {
				return nil, fmt.Errorf("bad char literal %s", src[i:j+1])
			}
			toks = append(toks, tok{kind: "char", text: src[i : j+1], ival: int64(r)})
			i = j + 1
		case c == '"':
			j := i + 1
			for j < len(src) && src[j] != '"' {
				if src[j] == '\\' {
					j++
				}
				j++
			}
			if j >= len(src) {
				return nil, fmt.Errorf("unterminated string literal")
			}
			s, err := strconv.Unquote(src[i : j+1])
			if err != nil {
				return nil, fmt.Errorf("bad string literal %s", src[i:j+1])
			}
			toks = append(toks, tok{kind: "string", text: s})
			i = j + 1
		default:
			matched := false
			for _, op := range ops3 {
				if strings.HasPrefix(src[i:], op) {
					toks = append(toks, tok{kind: "op", text: op})
					i += len(op)
					matched = true
					break
				}
			}
			if !matched {
				if strings.ContainsRune("+-*/%&|^!<>()[].,:?{}", rune(c)) {
					toks = append(toks, tok{kind: "op", text: string(c)})
					i++
				} else {
					return nil, fmt.Errorf("unexpected character %q in spec expression", c)
				}
			}
		}
	}
	toks = append(toks, tok{kind: "eof"})
	return toks, nil
}

// ---- parser ----

type parser struct {
	toks []tok
	p    int
}

func ParseExpr(src string) (e Expr, err error) {
	toks, err := lex(src)
	if err != nil {
		return nil, err
	}
	ps := &parser{toks: toks}
	defer func() {
		if r := recover(); r != nil {
			if pe, ok := r.(parseErr); ok {
				err = fmt.Errorf("%s in %q", string(pe), src)
				return
			}
			panic(r)
		}
	}()
	e = ps.expr()
	if ps.peek().kind != "eof" {
		ps.fail("unexpected token %q", ps.peek().text)
	}
	return e, nil
}

type parseErr string

func (ps *parser) fail(f string, a ...interface{}) { panic(parseErr(fmt.Sprintf(f, a...))) }
func (ps *parser) peek() tok                       { return ps.toks[ps.p] }
func (ps *parser) next() tok                       { t := ps.toks[ps.p]; ps.p++; return t }
func (ps *parser) isOp(s string) bool {
	t := ps.peek()
	return t.kind == "op" && t.text == s
}
func (ps *parser) accept(s string) bool {
	if ps.isOp(s) {
		ps.p++
		return true
	}
	return false
}
func (ps *parser) expect(s string) {
	if !ps.accept(s) {
		ps.fail("expected %q, found %q", s, ps.peek().text)
	}
}

func (ps *parser) expr() Expr {
	t := ps.peek()
	if t.kind == "ident" && (t.text == "forall" || t.text == "exists") {
		return ps.quant()
	}
	return ps.iff()
}

func (ps *parser) quant() Expr {
	q := ps.next().text
	var vars []QVar
	for {
		var names []string
		for {
			n := ps.next()
			if n.kind != "ident" {
				ps.fail("expected bound variable name")
			}
			names = append(names, n.text)
			if ps.accept(",") {
				continue
			}
			break
		}
		ty := ps.typeExpr()
		for _, n := range names {
			vars = append(vars, QVar{n, ty})
		}
		if ps.accept(",") {
			continue
		}
		break
	}
	var trigs [][]Expr
	for ps.accept("{") {
		var grp []Expr
		for {
			grp = append(grp, ps.expr())
			if !ps.accept(",") {
				break
			}
		}
		ps.expect("}")
		trigs = append(trigs, grp)
	}
	ps.expect("::")
	body := ps.expr()
	return EQuant{Forall: q == "forall", Vars: vars, Body: body, Triggers: trigs}
}

func (ps *parser) typeExpr() TypeExpr {
	var t TypeExpr
	if ps.accept("[") {
		ps.expect("]")
		t.Slice = true
	}
	if ps.accept("*") {
		t.Ptr = true
	}
	n := ps.next()
	if n.kind != "ident" {
		ps.fail("expected type name, found %q", n.text)
	}
	t.Name = n.text
	if ps.isOp(".") && ps.toks[ps.p+1].kind == "ident" {
		ps.p++
		t.Pkg = t.Name
		t.Name = ps.next().text
	}
	return t
}

func (ps *parser) iff() Expr {
	x := ps.impl()
	for ps.accept("<==>") {
		y := ps.impl()
		x = EBinary{"<==>", x, y}
	}
	return x
}

func (ps *parser) impl() Expr {
	x := ps.tern()
	if ps.accept("==>") {
		var y Expr
		t := ps.peek()
		if t.kind == "ident" && (t.text == "forall" || t.text == "exists") {
			y = ps.quant()
		} else {
			y = ps.impl()
		}
		return EBinary{"==>", x, y}
	}
	return x
}

func (ps *parser) tern() Expr {
	c := ps.or()
	if ps.accept("?") {
		a := ps.expr()
		ps.expect(":")
		b := ps.tern()
		return ECond{c, a, b}
	}
	return c
}

func (ps *parser) or() Expr {
	x := ps.and()
	for ps.accept("||") {
		x = EBinary{"||", x, ps.and()}
	}
	return x
}

func (ps *parser) and() Expr {
	x := ps.cmp()
	for ps.accept("&&") {
		t := ps.peek()
		if t.kind == "ident" && (t.text == "forall" || t.text == "exists") {
			x = EBinary{"&&", x, ps.quant()}
			return x
		}
		x = EBinary{"&&", x, ps.cmp()}
	}
	return x
}

func (ps *parser) cmp() Expr {
	x := ps.add()
	for _, op := range []string{"==", "!=", "<=", ">=", "<", ">"} {
		if ps.accept(op) {
			y := ps.add()
			return EBinary{op, x, y}
		}
	}
	return x
}

func (ps *parser) add() Expr {
	x := ps.mul()
	for {
		switch {
		case ps.accept("+"):
			x = EBinary{"+", x, ps.mul()}
		case ps.accept("-"):
			x = EBinary{"-", x, ps.mul()}
		case ps.accept("|"):
			x = EBinary{"|", x, ps.mul()}
		case ps.accept("^"):
			x = EBinary{"^", x, ps.mul()}
		default:
			return x
		}
	}
}

func (ps *parser) mul() Expr {
	x := ps.unary()
	for {
		switch {
		case ps.accept("*"):
			x = EBinary{"*", x, ps.unary()}
		case ps.accept("/"):
			x = EBinary{"/", x, ps.unary()}
		case ps.accept("%"):
			x = EBinary{"%", x, ps.unary()}
		case ps.accept("<<"):
			x = EBinary{"<<", x, ps.unary()}
		case ps.accept(">>"):
			x = EBinary{">>", x, ps.unary()}
		case ps.accept("&"):
			x = EBinary{"&", x, ps.unary()}
		case ps.accept("&^"):
			x = EBinary{"&^", x, ps.unary()}
		default:
			return x
		}
	}
}

func (ps *parser) unary() Expr {
	if ps.accept("!") {
		return EUnary{"!", ps.unary()}
	}
	if ps.accept("-") {
		return EUnary{"-", ps.unary()}
	}
	if ps.accept("*") {
		return EUnary{"*", ps.unary()}
	}
	return ps.postfix()
}

func (ps *parser) postfix() Expr {
	x := ps.primary()
	for {
		switch {
		case ps.isOp(".") && ps.toks[ps.p+1].kind == "op" && ps.toks[ps.p+1].text == "(":
			ps.p += 2
			t := ps.typeExpr()
			ps.expect(")")
			x = EAssert{x, t}
		case ps.accept("."):
			n := ps.next()
			if n.kind != "ident" {
				ps.fail("expected field name after '.'")
			}
			x = EField{x, n.text}
		case ps.accept("["):
			var lo, hi Expr
			if ps.isOp(":") {
				ps.p++
				if !ps.isOp("]") {
					hi = ps.expr()
				}
				ps.expect("]")
				x = ESlice{x, nil, hi}
				continue
			}
			lo = ps.expr()
			if ps.accept(":") {
				if !ps.isOp("]") {
					hi = ps.expr()
				}
				ps.expect("]")
				x = ESlice{x, lo, hi}
				continue
			}
			ps.expect("]")
			x = EIndex{x, lo}
		case ps.accept("("):
			var args []Expr
			if !ps.isOp(")") {
				for {
					args = append(args, ps.expr())
					if !ps.accept(",") {
						break
					}
				}
			}
			ps.expect(")")
			if id, ok := x.(EIdent); ok && id.Name == "old" {
				if len(args) != 1 {
					ps.fail("old takes one argument")
				}
				x = EOld{args[0]}
			} else {
				x = ECall{x, args}
			}
		default:
			return x
		}
	}
}

func (ps *parser) primary() Expr {
	t := ps.next()
	switch t.kind {
	case "int":
		return EInt{t.text}
	case "float":
		return EFloat{t.text}
	case "char":
		return EChar{t.ival}
	case "string":
		return EString{t.text}
	case "ident":
		switch t.text {
		case "true":
			return EBool{true}
		case "false":
			return EBool{false}
		case "nil":
			return ENil{}
		case "forall", "exists":
			ps.p--
			return ps.quant()
		}
		return EIdent{t.text}
	case "op":
		if t.text == "(" {
			e := ps.expr()
			ps.expect(")")
			return e
		}
	}
	ps.fail("unexpected token %q", t.text)
	return nil
}
