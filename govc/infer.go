package main

import (
	"fmt"
	"go/token"
	"go/types"

	"golang.org/x/tools/go/ssa"
)

// Inference of the invariant of one loop idiom that needs no human insight: an element-wise copy
// "for k := range src { dst[k] = src[k] }" (range or counting from zero), i.e. what copy(dst, src) does. Anything else
// stays unsupported (every other loop must carry an invariant). The inferred invariant is proved like a written one, so
// a loop that only looks like a copy cannot slip through.

func (ex *Exec) isCopyLoop(fr *Frame, li *loopInfo) bool {
	_, _, _, ok := copyLoopShape(fr, li)
	return ok
}

func copyLoopShape(fr *Frame, li *loopInfo) (dst, src *ssa.Alloc, store *ssa.Store, ok bool) {
	fn := fr.fn
	for _, b := range fn.Blocks {
		if !li.body[b.Index] {
			continue
		}
		if l := fr.loops[b]; l != nil && l != li {
			return nil, nil, nil, false // nested loop
		}
		for _, in := range b.Instrs {
			switch x := in.(type) {
			case *ssa.Call:
				if bi, isB := x.Call.Value.(*ssa.Builtin); !isB || bi.Name() != "len" {
					return nil, nil, nil, false
				}
			case *ssa.Go, *ssa.Defer, *ssa.Send, *ssa.MapUpdate, *ssa.Panic:
				return nil, nil, nil, false
			case *ssa.Store:
				if a, isA := x.Addr.(*ssa.Alloc); isA && isLocalCell(a) {
					continue // loop variables
				}
				if store != nil {
					return nil, nil, nil, false
				}
				store = x
			}
		}
	}
	if store == nil {
		return nil, nil, nil, false
	}
	localOf := func(v ssa.Value) *ssa.Alloc {
		ld, isU := v.(*ssa.UnOp)
		if !isU || ld.Op != token.MUL {
			return nil
		}
		a, isA := ld.X.(*ssa.Alloc)
		if !isA || !isLocalCell(a) || a.Comment == "" {
			return nil
		}
		return a
	}
	elemOf := func(addr ssa.Value) (slice, index *ssa.Alloc) {
		ia, isI := addr.(*ssa.IndexAddr)
		if !isI {
			return nil, nil
		}
		return localOf(ia.X), localOf(ia.Index)
	}
	var k1, k2 *ssa.Alloc
	dst, k1 = elemOf(store.Addr)
	ld, isU := store.Val.(*ssa.UnOp)
	if !isU || ld.Op != token.MUL {
		return nil, nil, nil, false
	}
	src, k2 = elemOf(ld.X)
	if dst == nil || src == nil || k1 == nil || k1 != k2 || dst == src {
		return nil, nil, nil, false
	}
	if storedInLoop(fn, li, dst) || storedInLoop(fn, li, src) {
		return nil, nil, nil, false // the slices themselves must not change
	}
	return dst, src, store, true
}

func (ex *Exec) inferLoopSpec(fr *Frame, li *loopInfo) *LoopSpec {
	dst, src, store, ok := copyLoopShape(fr, li)
	if !ok {
		return nil
	}
	sl, isSl := under(dst.Type().(*types.Pointer).Elem()).(*types.Slice)
	if !isSl {
		return nil
	}
	eq, trig := "", ""
	for _, l := range leavesOf(sl.Elem()) {
		sel := ""
		if l.Name != "" {
			sel = "." + l.Name
		}
		if eq != "" {
			eq += " && "
		}
		eq += fmt.Sprintf("%s[t]%s == %s[t]%s", dst.Comment, sel, src.Comment, sel)
		if trig == "" {
			trig = fmt.Sprintf("%s[t]%s", dst.Comment, sel)
		}
	}
	texts := []string{
		fmt.Sprintf("0 <= idx && idx <= len(%s) && idx <= len(%s)", src.Comment, dst.Comment),
		fmt.Sprintf("forall t int {%s} :: 0 <= t && t < idx ==> %s", trig, eq),
	}
	ls := &LoopSpec{}
	for i, t := range texts {
		e, err := ParseExpr(t)
		if err != nil {
			return nil
		}
		ls.Invariants = append(ls.Invariants, &Clause{Kind: fmt.Sprintf("loop@%s.inferred", ex.where(store.Pos())), Text: t, E: e, Ord: i, Where: ex.where(store.Pos())})
	}
	ex.vc.Assumptions[fmt.Sprintf("a loop of %s carries no annotation: it is an element-wise copy of %s into %s, whose invariant was inferred (and proved like a written one)", fr.fn.Name(), src.Comment, dst.Comment)] = true
	return ls
}
