package main

import (
	"fmt"
	"go/constant"
	"go/types"
	"strings"

	"golang.org/x/tools/go/ssa"
)

// Runtime assertion checking: compile a specification expression to Go source.
// Only a subset is executable (no uninterpreted spec functions, no allocation predicates).

type racVar struct {
	cur, old string
	ty       types.Type
}

type racCompiler struct {
	p     *Program
	b     *inputBuilder
	fn    *ssa.Function
	vars  map[string]racVar
	bound map[string]bool
	subst map[string]Expr // macro parameters
	inOld bool
	why   string
	depth int
}

func (rc *racCompiler) failf(f string, a ...interface{}) (string, types.Type, bool) {
	if rc.why == "" {
		rc.why = fmt.Sprintf(f, a...)
	}
	return "", nil, false
}

func (rc *racCompiler) compileBool(e Expr) (string, bool) {
	code, ty, ok := rc.compile(e)
	if !ok {
		return "", false
	}
	if ty == nil || !isBool(ty) {
		rc.why = "not a boolean"
		return "", false
	}
	return code, true
}

var (
	tInt  = types.Typ[types.Int]
	tBool = types.Typ[types.Bool]
)

func asInt(code string, ty types.Type) string {
	if ty == tInt {
		return code
	}
	return "int(" + code + ")"
}

func (rc *racCompiler) compile(e Expr) (string, types.Type, bool) {
	switch x := e.(type) {
	case EIdent:
		if rc.bound[x.Name] {
			return x.Name, tInt, true
		}
		if v, ok := rc.vars[x.Name]; ok {
			if rc.inOld {
				return v.old, v.ty, true
			}
			return v.cur, v.ty, true
		}
		if obj := rc.p.lookupObject("", x.Name, rc.fn.Pkg.Pkg); obj != nil {
			if c, ok := obj.(*types.Const); ok {
				if c.Val().Kind() == constant.Int {
					return c.Val().ExactString(), tInt, true
				}
				if c.Val().Kind() == constant.Bool {
					return c.Val().ExactString(), tBool, true
				}
			}
			if v, ok := obj.(*types.Var); ok && v.Pkg() == rc.fn.Pkg.Pkg {
				return x.Name, v.Type(), true
			}
		}
		return rc.failf("name %s is not executable", x.Name)
	case EInt:
		return x.V, tInt, true
	case EChar:
		return fmt.Sprint(x.V), tInt, true
	case EBool:
		return fmt.Sprint(x.V), tBool, true
	case EString:
		return fmt.Sprintf("%q", x.V), types.Typ[types.String], true
	case ENil:
		return "nil", nilType, true
	case EOld:
		save := rc.inOld
		rc.inOld = true
		defer func() { rc.inOld = save }()
		return rc.compile(x.X)
	case EUnary:
		c, ty, ok := rc.compile(x.X)
		if !ok {
			return "", nil, false
		}
		switch x.Op {
		case "!":
			return "!(" + c + ")", tBool, true
		case "-":
			if isFloat(ty) {
				return "-(" + c + ")", ty, true
			}
			return "-(" + asInt(c, ty) + ")", tInt, true
		case "*":
			if pt, ok := under(ty).(*types.Pointer); ok {
				return "(*" + c + ")", pt.Elem(), true
			}
		}
		return rc.failf("operator %s", x.Op)
	case EBinary:
		return rc.binary(x)
	case ECond:
		c, ok := rc.compileBool(x.C)
		if !ok {
			return "", nil, false
		}
		a, ta, ok1 := rc.compile(x.A)
		b, tb, ok2 := rc.compile(x.B)
		if !ok1 || !ok2 {
			return "", nil, false
		}
		if isInteger(ta) && isInteger(tb) {
			return fmt.Sprintf("func() int { if %s { return %s }; return %s }()", c, asInt(a, ta), asInt(b, tb)), tInt, true
		}
		if isBool(ta) {
			return fmt.Sprintf("func() bool { if %s { return %s }; return %s }()", c, a, b), tBool, true
		}
		ty := ta
		if ty == nilType {
			ty = tb
		}
		return fmt.Sprintf("func() %s { if %s { return %s }; return %s }()", rc.b.typeStr(ty), c, a, b), ty, true
	case EField:
		if id, ok := x.X.(EIdent); ok {
			if _, isVar := rc.vars[id.Name]; !isVar && !rc.bound[id.Name] {
				if obj := rc.p.lookupObject(id.Name, x.Name, rc.fn.Pkg.Pkg); obj != nil {
					if c, ok := obj.(*types.Const); ok && c.Val().Kind() == constant.Int {
						return c.Val().ExactString(), tInt, true
					}
				}
			}
		}
		c, ty, ok := rc.compile(x.X)
		if !ok {
			return "", nil, false
		}
		obj, _, _ := types.LookupFieldOrMethod(ty, true, rc.fn.Pkg.Pkg, x.Name)
		if obj == nil {
			if n, ok := derefNamed(ty); ok && n.Obj().Pkg() != nil {
				if n.Obj().Pkg() != rc.fn.Pkg.Pkg {
					return rc.failf("field %s of another package is not accessible", x.Name)
				}
			}
			return rc.failf("no field %s", x.Name)
		}
		v, ok := obj.(*types.Var)
		if !ok {
			return rc.failf("%s is not a field", x.Name)
		}
		if !v.Exported() && v.Pkg() != rc.fn.Pkg.Pkg {
			return rc.failf("field %s of another package is not accessible", x.Name)
		}
		return c + "." + x.Name, v.Type(), true
	case EIndex:
		c, ty, ok := rc.compile(x.X)
		if !ok {
			return "", nil, false
		}
		i, ti, ok := rc.compile(x.I)
		if !ok {
			return "", nil, false
		}
		var et types.Type
		switch u := under(ty).(type) {
		case *types.Slice:
			et = u.Elem()
		case *types.Array:
			et = u.Elem()
		case *types.Pointer:
			if a, ok := under(u.Elem()).(*types.Array); ok {
				et = a.Elem()
			}
		case *types.Basic:
			if isString(ty) {
				et = types.Typ[types.Uint8]
			}
		}
		if et == nil {
			return rc.failf("cannot index %s", x.X)
		}
		return fmt.Sprintf("%s[%s]", c, asInt(i, ti)), et, true
	case EAssert:
		c, _, ok := rc.compile(x.X)
		if !ok {
			return "", nil, false
		}
		t, err := rc.p.lookupType(x.T, rc.fn.Pkg.Pkg)
		if err != nil {
			return rc.failf("%v", err)
		}
		return fmt.Sprintf("%s.(%s)", c, rc.b.typeStr(t)), t, true
	case ECall:
		return rc.call(x)
	case EQuant:
		return rc.quant(x)
	}
	return rc.failf("expression %s is not executable", e)
}

func (rc *racCompiler) binary(x EBinary) (string, types.Type, bool) {
	switch x.Op {
	case "&&", "||", "==>", "<==>":
		a, ok1 := rc.compileBool(x.X)
		if !ok1 {
			return "", nil, false
		}
		b, ok2 := rc.compileBool(x.Y)
		if !ok2 {
			return "", nil, false
		}
		switch x.Op {
		case "&&":
			return "(" + a + " && " + b + ")", tBool, true
		case "||":
			return "(" + a + " || " + b + ")", tBool, true
		case "==>":
			return "(!(" + a + ") || (" + b + "))", tBool, true
		default:
			return "((" + a + ") == (" + b + "))", tBool, true
		}
	}
	a, ta, ok1 := rc.compile(x.X)
	if !ok1 {
		return "", nil, false
	}
	b, tb, ok2 := rc.compile(x.Y)
	if !ok2 {
		return "", nil, false
	}
	bothInt := isInteger(ta) && isInteger(tb)
	switch x.Op {
	case "==", "!=":
		if bothInt {
			return fmt.Sprintf("(%s %s %s)", asInt(a, ta), x.Op, asInt(b, tb)), tBool, true
		}
		if ta == nilType || tb == nilType {
			other, oc := tb, b
			if tb == nilType {
				other, oc = ta, a
			}
			switch under(other).(type) {
			case *types.Interface:
				// a typed nil pointer inside an interface is not nil for the verifier either (dyn != 0)
				return fmt.Sprintf("(%s %s nil)", oc, x.Op), tBool, true
			case *types.Pointer, *types.Slice:
				return fmt.Sprintf("(%s %s nil)", oc, x.Op), tBool, true
			}
			return rc.failf("nil comparison on %s", other)
		}
		if isSlice(ta) || isSlice(tb) {
			return rc.failf("slice identity comparison is not executable")
		}
		return fmt.Sprintf("(%s %s %s)", a, x.Op, b), tBool, true
	case "<", "<=", ">", ">=":
		if bothInt {
			return fmt.Sprintf("(%s %s %s)", asInt(a, ta), x.Op, asInt(b, tb)), tBool, true
		}
		if isFloat(ta) || isFloat(tb) {
			return fmt.Sprintf("(float64(%s) %s float64(%s))", a, x.Op, b), tBool, true
		}
	case "+", "-", "*", "/", "%":
		if bothInt {
			return fmt.Sprintf("(%s %s %s)", asInt(a, ta), x.Op, asInt(b, tb)), tInt, true
		}
		if (isFloat(ta) || isFloat(tb)) && x.Op != "%" {
			return fmt.Sprintf("(float64(%s) %s float64(%s))", a, x.Op, b), types.Typ[types.Float64], true
		}
	case "&", "|", "<<", ">>":
		if bothInt {
			return fmt.Sprintf("(%s %s %s)", asInt(a, ta), x.Op, asInt(b, tb)), tInt, true
		}
	}
	return rc.failf("operator %s on these operands is not executable", x.Op)
}

func (rc *racCompiler) call(x ECall) (string, types.Type, bool) {
	id, ok := x.Fun.(EIdent)
	if !ok {
		return rc.failf("call is not executable")
	}
	arg := func(i int) (string, types.Type, bool) { return rc.compile(x.Args[i]) }
	switch id.Name {
	case "len", "cap":
		c, ty, ok := arg(0)
		if !ok {
			return "", nil, false
		}
		if pt, ok := under(ty).(*types.Pointer); ok {
			if _, isArr := under(pt.Elem()).(*types.Array); isArr {
				c = "(*" + c + ")"
			}
		}
		return id.Name + "(" + c + ")", tInt, true
	case "min", "max":
		a, ta, ok1 := arg(0)
		b, tb, ok2 := arg(1)
		if !ok1 || !ok2 {
			return "", nil, false
		}
		op := "<"
		if id.Name == "max" {
			op = ">"
		}
		return fmt.Sprintf("func() int { if %s %s %s { return %s }; return %s }()", asInt(a, ta), op, asInt(b, tb), asInt(a, ta), asInt(b, tb)), tInt, true
	case "abs":
		a, ta, ok := arg(0)
		if !ok {
			return "", nil, false
		}
		return fmt.Sprintf("func() int { if %s < 0 { return -%s }; return %s }()", asInt(a, ta), asInt(a, ta), asInt(a, ta)), tInt, true
	case "int":
		a, ta, ok := arg(0)
		if !ok {
			return "", nil, false
		}
		return asInt(a, ta), tInt, true
	case "typeis":
		a, _, ok := arg(0)
		if !ok {
			return "", nil, false
		}
		te, err := exprToType(x.Args[1])
		if err != nil {
			return rc.failf("%v", err)
		}
		t, err := rc.p.lookupType(te, rc.fn.Pkg.Pkg)
		if err != nil {
			return rc.failf("%v", err)
		}
		return fmt.Sprintf("func() bool { _, ok := %s.(%s); return ok }()", a, rc.b.typeStr(t)), tBool, true
	case "fresh", "allocated", "arr", "off", "disjoint", "ref", "dyn", "implements", "funcis", "idx":
		return rc.failf("%s() has no run-time meaning", id.Name)
	}
	sf := rc.p.Contracts.Spec(id.Name, rc.fn.Pkg.Pkg.Path())
	if sf == nil {
		return rc.failf("unknown function %s", id.Name)
	}
	if sf.Body == nil {
		return rc.failf("specification function %s is uninterpreted", sf.Name)
	}
	if rc.depth > 12 {
		return rc.failf("macro expansion too deep")
	}
	// macro expansion by substitution of the argument expressions
	m := map[string]Expr{}
	for i, p := range sf.Params {
		if i < len(x.Args) {
			m[p.Name] = rc.applySubst(x.Args[i])
		}
	}
	body := substExpr(sf.Body, m)
	rc.depth++
	defer func() { rc.depth-- }()
	return rc.compile(body)
}

func (rc *racCompiler) applySubst(e Expr) Expr { return e }

// substExpr replaces free identifiers by expressions.
func substExpr(e Expr, m map[string]Expr) Expr {
	switch x := e.(type) {
	case EIdent:
		if r, ok := m[x.Name]; ok {
			return r
		}
		return x
	case EUnary:
		return EUnary{x.Op, substExpr(x.X, m)}
	case EBinary:
		return EBinary{x.Op, substExpr(x.X, m), substExpr(x.Y, m)}
	case ECond:
		return ECond{substExpr(x.C, m), substExpr(x.A, m), substExpr(x.B, m)}
	case EField:
		return EField{substExpr(x.X, m), x.Name}
	case EIndex:
		return EIndex{substExpr(x.X, m), substExpr(x.I, m)}
	case ESlice:
		var lo, hi Expr
		if x.Lo != nil {
			lo = substExpr(x.Lo, m)
		}
		if x.Hi != nil {
			hi = substExpr(x.Hi, m)
		}
		return ESlice{substExpr(x.X, m), lo, hi}
	case ECall:
		var args []Expr
		for _, a := range x.Args {
			args = append(args, substExpr(a, m))
		}
		return ECall{x.Fun, args}
	case EAssert:
		return EAssert{substExpr(x.X, m), x.T}
	case EOld:
		return EOld{substExpr(x.X, m)}
	case EQuant:
		inner := map[string]Expr{}
		for k, v := range m {
			inner[k] = v
		}
		for _, v := range x.Vars {
			delete(inner, v.Name)
		}
		return EQuant{x.Forall, x.Vars, substExpr(x.Body, inner), nil}
	}
	return e
}

// quant compiles bounded quantifiers: the range of each variable is read off the guard.
func (rc *racCompiler) quant(x EQuant) (string, types.Type, bool) {
	var guard, body Expr
	if x.Forall {
		if b, ok := x.Body.(EBinary); ok && b.Op == "==>" {
			guard, body = b.X, b.Y
		} else {
			return rc.failf("forall without a range guard")
		}
	} else {
		guard, body = x.Body, EBool{true}
	}
	var conj []Expr
	var flatten func(e Expr)
	flatten = func(e Expr) {
		if b, ok := e.(EBinary); ok && b.Op == "&&" {
			flatten(b.X)
			flatten(b.Y)
			return
		}
		conj = append(conj, e)
	}
	flatten(guard)
	if rc.bound == nil {
		rc.bound = map[string]bool{}
	}
	type rng struct{ lo, hi string }
	ranges := map[string]*rng{}
	var names []string
	for _, v := range x.Vars {
		ranges[v.Name] = &rng{}
		names = append(names, v.Name)
	}
	// bounds may mention outer variables and earlier bound variables
	saveBound := map[string]bool{}
	for k, v := range rc.bound {
		saveBound[k] = v
	}
	defer func() { rc.bound = saveBound }()
	nb := map[string]bool{}
	for k, v := range rc.bound {
		nb[k] = v
	}
	rc.bound = nb
	var rest []Expr
	for _, c := range conj {
		b, ok := c.(EBinary)
		used := false
		if ok {
			if id, isId := b.Y.(EIdent); isId && ranges[id.Name] != nil && (b.Op == "<=" || b.Op == "<") && ranges[id.Name].lo == "" {
				// lo <= v  /  lo < v
				if code, ty, ok := rc.compile(b.X); ok && isInteger(ty) {
					if b.Op == "<" {
						code = "(" + asInt(code, ty) + ")+1"
					} else {
						code = asInt(code, ty)
					}
					ranges[id.Name].lo = code
					used = true
				}
			} else if id, isId := b.X.(EIdent); isId && ranges[id.Name] != nil && (b.Op == "<=" || b.Op == "<") && ranges[id.Name].hi == "" {
				if code, ty, ok := rc.compile(b.Y); ok && isInteger(ty) {
					if b.Op == "<=" {
						code = "(" + asInt(code, ty) + ")+1"
					} else {
						code = asInt(code, ty)
					}
					ranges[id.Name].hi = code
					used = true
				}
			}
		}
		rc.why = ""
		if !used {
			rest = append(rest, c)
		}
		// once a variable has both bounds it may appear in later bounds
		for _, n := range names {
			if ranges[n].lo != "" && ranges[n].hi != "" {
				rc.bound[n] = true
			}
		}
	}
	for _, n := range names {
		if ranges[n].lo == "" || ranges[n].hi == "" {
			return rc.failf("no finite range for quantified variable %s", n)
		}
		rc.bound[n] = true
	}
	var restCode []string
	for _, r := range rest {
		c, ok := rc.compileBool(r)
		if !ok {
			return "", nil, false
		}
		restCode = append(restCode, c)
	}
	bodyCode, ok := rc.compileBool(body)
	if !ok {
		return "", nil, false
	}
	var sb strings.Builder
	sb.WriteString("func() bool {\n")
	for _, n := range names {
		fmt.Fprintf(&sb, "for %s := %s; %s < %s; %s++ {\n", n, ranges[n].lo, n, ranges[n].hi, n)
	}
	cond := "true"
	if len(restCode) > 0 {
		cond = strings.Join(restCode, " && ")
	}
	if x.Forall {
		fmt.Fprintf(&sb, "if (%s) && !(%s) { return false }\n", cond, bodyCode)
	} else {
		fmt.Fprintf(&sb, "if (%s) && (%s) { return true }\n", cond, bodyCode)
	}
	for range names {
		sb.WriteString("}\n")
	}
	if x.Forall {
		sb.WriteString("return true }()")
	} else {
		sb.WriteString("return false }()")
	}
	return sb.String(), tBool, true
}
