package main

import (
	"bytes"
	"context"
	"fmt"
	"os"
	"os/exec"
	"path/filepath"
	"strings"
	"sync"
	"time"
)

type solverSpec struct {
	name string
	args func(file string, timeout time.Duration, seed int) []string
}

var solvers = []solverSpec{
	{"z3-new", func(f string, t time.Duration, seed int) []string {
		return []string{"z3-new", "-smt2", fmt.Sprintf("-T:%d", 8*(int(t.Seconds())+1)), fmt.Sprintf("smt.random_seed=%d", seed), fmt.Sprintf("sat.random_seed=%d", seed), "smt.array.extensional=false", f}
	}},
	{"cvc5", func(f string, t time.Duration, seed int) []string {
		return []string{"cvc5", "--lang=smt2", fmt.Sprintf("--tlimit=%d", 8*t.Milliseconds()), fmt.Sprintf("--seed=%d", seed), f}
	}},
	{"z3", func(f string, t time.Duration, seed int) []string {
		return []string{"z3", "-smt2", fmt.Sprintf("-T:%d", 8*(int(t.Seconds())+1)), fmt.Sprintf("smt.random_seed=%d", seed), "smt.array.extensional=false", f}
	}},
}

type solveResult struct {
	status string // unsat sat unknown timeout error
	output string
	secs   float64
}

func runSolver(sp solverSpec, file string, timeout time.Duration, seed int) solveResult {
	args := sp.args(file, timeout, seed)
	// The time limit is CPU time (ulimit -t), so that a verdict does not depend on how loaded the machine is; the wall
	// clock limits (solver option and context) are only a backstop at eight times that.
	cpu := int(timeout.Seconds()+0.999) + 1
	ctx, cancel := context.WithTimeout(context.Background(), 8*timeout+4*time.Second)
	defer cancel()
	sh := append([]string{"-c", fmt.Sprintf("ulimit -t %d; exec \"$@\"", cpu), "sh"}, args...)
	cmd := exec.CommandContext(ctx, "/bin/sh", sh...)
	var out bytes.Buffer
	cmd.Stdout = &out
	cmd.Stderr = &out
	t0 := time.Now()
	_ = cmd.Run()
	secs := time.Since(t0).Seconds()
	text := out.String()
	first := strings.TrimSpace(strings.SplitN(text, "\n", 2)[0])
	switch first {
	case "unsat", "sat", "unknown":
		return solveResult{first, text, secs}
	}
	if ctx.Err() != nil || strings.Contains(text, "timeout") || strings.Contains(text, "interrupted") {
		return solveResult{"timeout", text, secs}
	}
	if ps := cmd.ProcessState; ps != nil && !ps.Exited() {
		return solveResult{"timeout", text + "\n(CPU time limit reached)", secs} // killed by SIGXCPU/SIGKILL
	}
	return solveResult{"error", text, secs}
}

// buildScript renders the SMT-LIB query of one obligation.
func buildScript(vc *VC, o *Obligation, withModel bool) string {
	var b strings.Builder
	b.WriteString("; obligation " + o.Name + "\n")
	if o.Where != "" {
		b.WriteString("; at " + o.Where + "\n")
	}
	if o.Descr != "" {
		b.WriteString("; " + strings.ReplaceAll(o.Descr, "\n", " ") + "\n")
	}
	if withModel {
		b.WriteString("(set-option :produce-models true)\n")
	}
	b.WriteString("(set-logic ALL)\n")
	b.WriteString(smtPrelude)
	for _, d := range vc.decls {
		b.WriteString(d + "\n")
	}
	for _, d := range vc.lateDecls {
		b.WriteString(d + "\n")
	}
	for _, d := range vc.implFacts() {
		b.WriteString(d + "\n")
	}
	cut := o.Cut
	for i, l := range vc.lines[:o.Pos] {
		if i < cut && (strings.Contains(l, "(forall ") || strings.Contains(l, "(exists ")) {
			continue
		}
		b.WriteString(l + "\n")
	}
	if !o.Reach.IsTrue() {
		b.WriteString("(assert " + o.Reach.S + ")\n")
	}
	// the negated goal, with a universally quantified goal skolemised here (rather than inside the solver) so that the
	// products it mentions are ground terms the multiplication lemmas below can talk about
	goalLines := negatedGoal(o.Goal)
	for _, l := range goalLines {
		b.WriteString(l + "\n")
	}
	for _, l := range productLemmas(vc.lines[:o.Pos], goalLines) {
		b.WriteString(l + "\n")
	}
	b.WriteString("(check-sat)\n")
	if withModel {
		b.WriteString("(get-model)\n")
	}
	return b.String()
}

type SolveOptions struct {
	Timeout  time.Duration
	Seeds    []int
	WorkDir  string
	Parallel int
	KeepAll  bool
}

// Discharge runs the portfolio over all obligations of all reports.
func Discharge(reps []*FuncReport, opt SolveOptions) {
	type job struct {
		rep *FuncReport
		o   *Obligation
		idx int
	}
	var jobs []job
	for _, r := range reps {
		if r.VC == nil {
			continue
		}
		for i, o := range r.VC.Obls {
			jobs = append(jobs, job{r, o, i})
		}
	}
	sem := make(chan struct{}, opt.Parallel)
	var wg sync.WaitGroup
	for _, j := range jobs {
		wg.Add(1)
		sem <- struct{}{}
		go func(j job) {
			defer wg.Done()
			defer func() { <-sem }()
			solveOne(j.rep, j.o, j.idx, opt)
		}(j)
	}
	wg.Wait()
}

func safeFile(s string) string {
	var b strings.Builder
	for _, r := range s {
		switch {
		case r >= 'a' && r <= 'z', r >= 'A' && r <= 'Z', r >= '0' && r <= '9', r == '.', r == '-', r == '_':
			b.WriteRune(r)
		default:
			b.WriteByte('_')
		}
	}
	out := b.String()
	if len(out) > 120 {
		out = out[:120]
	}
	return out
}

func solveOne(rep *FuncReport, o *Obligation, idx int, opt SolveOptions) {
	dir := filepath.Join(opt.WorkDir, safeFile(rep.Short))
	os.MkdirAll(dir, 0o755)
	file := filepath.Join(dir, fmt.Sprintf("%03d_%s.smt2", idx, safeFile(strings.SplitN(o.Name, "#", 2)[1])))
	script := buildScript(rep.VC, o, true)
	if err := os.WriteFile(file, []byte(script), 0o644); err != nil {
		o.Status, o.Output = "error", err.Error()
		return
	}
	o.SmtFile = file
	o.ByWhich = map[string]string{}
	t0 := time.Now()
	defer func() { o.Time = time.Since(t0).Seconds() }()
	timeout := opt.Timeout
	if o.ExpectSat {
		// vacuity queries: only a definite "unsat" is bad
		if timeout > 2*time.Second {
			timeout = 2 * time.Second
		}
		r := runSolver(solvers[0], file, timeout, opt.Seeds[0])
		o.ByWhich[solvers[0].name] = r.status
		o.Solver = solvers[0].name
		switch r.status {
		case "unsat":
			o.Status = "failed"
			o.Output = "vacuity: the assumptions at this point are contradictory (query is unsat)"
		default:
			o.Status = "proved"
		}
		if !opt.KeepAll && o.Status == "proved" {
			os.Remove(file)
			o.SmtFile = ""
		}
		return
	}
	// stage 1: quick attempt with the fastest solver; stage 2: the rest in parallel
	sawSat := ""
	satOut := ""
	for _, seed := range opt.Seeds {
		quick := timeout
		if quick > 1500*time.Millisecond {
			quick = 1500 * time.Millisecond
		}
		r := runSolver(solvers[0], file, quick, seed)
		o.ByWhich[solvers[0].name] = r.status
		if r.status == "unsat" {
			o.Status, o.Solver = "proved", solvers[0].name
			break
		}
		if r.status == "sat" {
			sawSat, satOut = solvers[0].name, r.output
		}
		type res struct {
			name string
			r    solveResult
		}
		ch := make(chan res, len(solvers)+2)
		n := 0
		for si, sp := range solvers {
			if si == 0 && quick == timeout {
				continue
			}
			if si == 0 {
				// the first stage has used this seed already: run times are heavy-tailed, two fresh seeds help more than
				// more time for the same one
				for _, s2 := range []int{seed + 101, seed + 202} {
					n++
					go func(sp solverSpec, s2 int) { ch <- res{sp.name, runSolver(sp, file, timeout, s2)} }(sp, s2)
				}
				continue
			}
			n++
			go func(sp solverSpec) { ch <- res{sp.name, runSolver(sp, file, timeout, seed)} }(sp)
		}
		for i := 0; i < n; i++ {
			x := <-ch
			o.ByWhich[x.name] = x.r.status
			if x.r.status == "unsat" && o.Status != "proved" {
				o.Status, o.Solver = "proved", x.name
				break // first proof wins; the other solvers run out on their own time limit
			}
			if x.r.status == "sat" && sawSat == "" {
				sawSat, satOut = x.name, x.r.output
				break // a model: no other solver can prove the goal
			}
			if x.r.status == "error" && o.Output == "" {
				o.Output = x.name + ": " + firstLines(x.r.output, 6)
			}
		}
		if o.Status == "proved" || sawSat != "" {
			break
		}
	}
	if o.Status == "proved" {
		if !opt.KeepAll {
			os.Remove(file)
			o.SmtFile = ""
		}
		return
	}
	if sawSat != "" {
		o.Status, o.Solver, o.Model = "failed", sawSat, satOut
		return
	}
	// nobody decided it: look for a small counter-model (input sizes bounded); a model of the restricted query is a
	// model of the original one, so it is a genuine counterexample of the obligation - never used as a proof
	if len(rep.VC.SizeHints) > 0 {
		var hb strings.Builder
		for _, h := range rep.VC.SizeHints {
			hb.WriteString("(assert " + h + ")\n")
		}
		hunt := strings.Replace(script, "(check-sat)", hb.String()+"(check-sat)", 1)
		hfile := strings.TrimSuffix(file, ".smt2") + ".hunt.smt2"
		if os.WriteFile(hfile, []byte(hunt), 0o644) == nil {
			for _, sp := range []int{1, 0} {
				if sp >= len(solvers) {
					continue
				}
				r := runSolver(solvers[sp], hfile, 8*time.Second, opt.Seeds[0])
				o.ByWhich[solvers[sp].name+"(small)"] = r.status
				if r.status == "sat" {
					o.Status, o.Solver, o.Model = "failed", solvers[sp].name, r.output
					o.SmtFile = hfile
					return
				}
			}
			os.Remove(hfile)
		}
	}
	o.Status = "unknown"
	if o.Output == "" {
		var parts []string
		for k, v := range o.ByWhich {
			parts = append(parts, k+"="+v)
		}
		o.Output = "no solver decided the obligation: " + strings.Join(parts, " ")
	}
}

func firstLines(s string, n int) string {
	ls := strings.Split(s, "\n")
	if len(ls) > n {
		ls = ls[:n]
	}
	return strings.Join(ls, "\n")
}


// negatedGoal renders (assert (not goal)); a goal of the form forall xs. body, or A => forall xs. body, is skolemised.
func negatedGoal(goal Term) []string {
	plain := []string{"(assert " + Not(goal).S + ")"}
	if !strings.Contains(goal.S, "(forall ") {
		return plain
	}
	n := parseSx(goal.S)
	if n == nil {
		return plain
	}
	var out []string
	for n.head() == "=>" && len(n.kids) == 3 {
		out = append(out, "(assert "+n.kids[1].String()+")")
		n = n.kids[2]
	}
	if n.head() != "forall" || len(n.kids) != 3 {
		return plain
	}
	ren := map[string]string{}
	for _, bnd := range n.kids[1].kids {
		if len(bnd.kids) != 2 {
			return plain
		}
		v := bnd.kids[0].String()
		sk := "|sk!" + strings.NewReplacer("|", "", "?", "!").Replace(v) + "|"
		ren[v] = sk
		out = append(out, "(declare-const "+sk+" "+bnd.kids[1].String()+")")
	}
	body := n.kids[2]
	if body.head() == "!" && len(body.kids) >= 2 {
		body = body.kids[1]
	}
	var subst func(e *sx) *sx
	subst = func(e *sx) *sx {
		if e.kids == nil {
			if r, ok := ren[e.atom]; ok {
				return &sx{atom: r}
			}
			return e
		}
		c := &sx{}
		for _, k := range e.kids {
			c.kids = append(c.kids, subst(k))
		}
		return c
	}
	out = append(out, "(assert (not "+subst(body).String()+"))")
	return out
}

// productLemmas: for every two ground products x*f and y*f with a common factor that occur in the query, the instances
//   x <= y && f >= 0  ==>  x*f <= y*f,        x < y && f >= 0  ==>  x*f + f <= y*f        and        y == x+1  ==>  y*f == x*f + f
// of the monotonicity of multiplication and of distributivity (theorems of integer arithmetic; the solvers' non-linear engines find them only
// erratically). Nothing is added for queries without two such products.
func productLemmas(lines []string, goal []string) []string {
	type prod struct{ x, f string }
	seen := map[string]bool{}
	byFactor := map[string][]string{}
	var order []string
	var walk func(e *sx, bound map[string]bool)
	ground := func(e *sx, bound map[string]bool) bool {
		vs := map[string]bool{}
		e.vars(bound, vs)
		return len(vs) == 0
	}
	walk = func(e *sx, bound map[string]bool) {
		if e.kids == nil {
			return
		}
		if h := e.head(); (h == "forall" || h == "exists") && len(e.kids) == 3 {
			nb := map[string]bool{}
			for k := range bound {
				nb[k] = true
			}
			for _, bnd := range e.kids[1].kids {
				if len(bnd.kids) == 2 {
					nb[bnd.kids[0].String()] = true
				}
			}
			walk(e.kids[2], nb)
			return
		}
		if e.head() == "*" && len(e.kids) == 3 && ground(e, bound) {
			a, b := e.kids[1].String(), e.kids[2].String()
			_, la := litVal(a)
			_, lb := litVal(b)
			if !la && !lb && a != b {
				for _, pr := range [][2]string{{a, b}, {b, a}} {
					key := pr[0] + " * " + pr[1]
					if !seen[key] {
						seen[key] = true
						if _, ok := byFactor[pr[1]]; !ok {
							order = append(order, pr[1])
						}
						byFactor[pr[1]] = append(byFactor[pr[1]], pr[0])
					}
				}
			}
		}
		for _, k := range e.kids {
			walk(k, bound)
		}
	}
	scan := func(l string) {
		if !strings.Contains(l, "(* ") || !strings.HasPrefix(l, "(assert ") {
			return
		}
		if n := parseSx(l); n != nil {
			walk(n, map[string]bool{})
		}
	}
	hasSk := false
	for _, l := range goal {
		if strings.Contains(l, "sk!") && strings.Contains(l, "(* ") {
			hasSk = true
		}
	}
	if !hasSk {
		return nil // only goals that were skolemised above need help
	}
	for _, l := range lines {
		scan(l)
	}
	for _, l := range goal {
		scan(l)
	}
	var out []string
	mul := func(x, f string) string {
		if f < x {
			return "(* " + f + " " + x + ")"
		}
		return "(* " + x + " " + f + ")"
	}
	for _, f := range order {
		xs := byFactor[f]
		// a product with a skolem factor against the factor itself: x >= 1 && f >= 0 ==> x*f >= f, x >= 0 && f >= 0 ==> x*f >= 0
		for _, x := range xs {
			if strings.Contains(x, "sk!") && len(out) < 120 {
				out = append(out, fmt.Sprintf("(assert (=> (and (>= %s 1) (>= %s 0)) (>= %s %s)))", x, f, mul(x, f), f))
				out = append(out, fmt.Sprintf("(assert (=> (and (>= %s 0) (>= %s 0)) (>= %s 0)))", x, f, mul(x, f)))
			}
		}
		if len(xs) < 2 || len(xs) > 8 {
			continue
		}
		for i := 0; i < len(xs); i++ {
			for j := 0; j < len(xs); j++ {
				if i == j {
					continue
				}
				x, y := xs[i], xs[j]
				if !strings.Contains(x, "sk!") && !strings.Contains(y, "sk!") {
					continue
				}
				out = append(out, fmt.Sprintf("(assert (=> (and (<= %s %s) (>= %s 0)) (<= %s %s)))", x, y, f, mul(x, f), mul(y, f)))
				out = append(out, fmt.Sprintf("(assert (=> (and (< %s %s) (>= %s 0)) (<= (+ %s %s) %s)))", x, y, f, mul(x, f), f, mul(y, f)))
				out = append(out, fmt.Sprintf("(assert (=> (= %s (+ %s 1)) (= %s (+ %s %s))))", y, x, mul(y, f), mul(x, f), f))
			}
		}
		if len(out) > 120 {
			break
		}
	}
	return out
}
