package main

import (
	"fmt"
	"go/token"
	"go/types"
	"sort"
	"strings"

	"golang.org/x/tools/go/ssa"
)

func (ex *Exec) call(fr *Frame, instr ssa.Instruction, c *ssa.CallCommon, st *State, reach Term) Val {
	var args []Val
	opaque := false
	if f, ok := c.Value.(*ssa.Function); ok && f.Pkg != nil {
		switch f.Pkg.Pkg.Path() {
		case "errors", "fmt":
			opaque = true // message texts are never inspected: keep them out of the VC
		}
	}
	for _, a := range c.Args {
		if k, ok := a.(*ssa.Const); ok && opaque && k.Value != nil && isString(k.Type()) {
			s := constString(k)
			d := ex.vc.declare(fmt.Sprintf("msg!%d", hashString(s)), ArraySort(SInt))
			args = append(args, Scalar{MkStr(d, IntLit(0), IntLit(int64(len(s)))), k.Type()})
			continue
		}
		args = append(args, ex.get(fr, a, st))
	}
	pos := instr.Pos()
	ex.callAsserts(fr, c, args, st, reach, pos)
	if c.IsInvoke() {
		recv := ex.get(fr, c.Value, st)
		return ex.invoke(fr, c, recv, args, st, reach, pos)
	}
	switch f := c.Value.(type) {
	case *ssa.Builtin:
		return ex.builtin(fr, f, c, args, st, reach, pos)
	case *ssa.Function:
		return ex.callFunc(fr, f, nil, args, st, reach, pos)
	case *ssa.MakeClosure:
		fv := ex.get(fr, f, st).(FuncV)
		return ex.callFunc(fr, fv.Fn, fv.Free, args, st, reach, pos)
	}
	// dynamic call through a function value
	v := ex.get(fr, c.Value, st)
	if fv, ok := v.(FuncV); ok {
		return ex.callFunc(fr, fv.Fn, fv.Free, args, st, reach, pos)
	}
	if pf, ok := v.(ParamFuncV); ok {
		// a call through a function-typed parameter: only its callback contract is known
		var cb *Contract
		if ex.contract != nil && ex.contract.Callbacks != nil {
			cb = ex.contract.Callbacks[pf.Name]
		}
		if cb == nil {
			panic(unsupported("call through function parameter %s without a callback contract", pf.Name))
		}
		sig := under(pf.Ty).(*types.Signature)
		var names []string
		for i := 0; i < sig.Params().Len(); i++ {
			n := sig.Params().At(i).Name()
			if n == "" || n == "_" {
				n = fmt.Sprintf("arg%d", i)
			}
			names = append(names, n)
		}
		ex.vc.Assumptions["calls through the function parameter "+pf.Name+" behave as its callback contract states"] = true
		return ex.applyContract(fr, cb, names, args, sig, ex.fn.Pkg, st, reach, pos, "callback "+pf.Name)
	}
	panic(unsupported("dynamic call through %s in %s", c.Value.Name(), fr.fn))
}

// callAsserts checks the "assert call <callee> :: expr" clauses of the function under verification at this call.
func (ex *Exec) callAsserts(fr *Frame, c *ssa.CallCommon, args []Val, st *State, reach Term, pos token.Pos) {
	// a call made inside an inlined helper without a contract of its own belongs to the function it is inlined into
	owner := fr
	for owner != nil && owner.contract == nil {
		owner = owner.parent
	}
	if owner == nil || len(owner.contract.CallAsserts) == 0 || ex.dry > 0 {
		return
	}
	var name string
	if c.IsInvoke() {
		name = c.Method.FullName()
	} else if f := c.StaticCallee(); f != nil {
		name = f.String()
	} else {
		return
	}
	for _, ca := range owner.contract.CallAsserts {
		if !strings.HasSuffix(name, ca.Callee) {
			continue
		}
		if ex.assertHit == nil {
			ex.assertHit = map[*CallAssert]bool{}
		}
		ex.assertHit[ca] = true
		env := ex.loopEnv(owner, nil, st)
		env.pos = pos
		env.old.pos = pos
		for i, a := range args {
			env.vars[fmt.Sprintf("arg%d", i)] = a
		}
		g := ex.evalBool(ca.Clause.E, env)
		o := ex.vc.oblige("assert", fr.name("assert:"+ca.Clause.Label), reach, g, ex.where(pos))
		o.Descr = ca.Clause.Text
		ex.vc.assume(Implies(reach, g))
	}
}

func resultVal(vals []Val) Val {
	switch len(vals) {
	case 0:
		return TupleV{}
	case 1:
		return vals[0]
	}
	return TupleV{E: vals}
}

func (ex *Exec) callFunc(fr *Frame, fn *ssa.Function, free []Val, args []Val, st *State, reach Term, pos token.Pos) Val {
	key := fn.String()
	c := ex.prog.Contracts.Funcs[key]
	if c != nil && !c.Inline {
		var names []string
		for _, p := range fn.Params {
			names = append(names, p.Name())
		}
		return ex.applyContract(fr, c, names, args, fn.Signature, fn.Pkg, st, reach, pos, shortFuncName(fn))
	}
	if c != nil && c.Inline && ex.dry == 0 {
		c.Used = true // verified here, at the site it is inlined into
	}
	if len(fn.Blocks) == 0 {
		panic(unsupported("call to %s: no contract and no body", key))
	}
	if !ex.prog.InRepo(fn) && (c == nil || !c.Inline) {
		panic(unsupported("call to external function %s without a trusted contract", key))
	}
	if fr.depth >= ex.opts.InlineDepth {
		panic(unsupported("call to %s: no contract and inlining depth exceeded", key))
	}
	for f := fr; f != nil; f = f.parent {
		if f.fn == fn {
			panic(unsupported("recursive call to %s needs a contract", key))
		}
	}
	return ex.inlineCall(fr, fn, free, args, st, reach, pos)
}

func shortFuncName(fn *ssa.Function) string {
	if p := fnPkg(fn); p != nil {
		return fn.RelString(p)
	}
	return fn.String()
}

func (ex *Exec) inlineCall(fr *Frame, fn *ssa.Function, free []Val, args []Val, st *State, reach Term, pos token.Pos) Val {
	sub := ex.newFrameAt(fn, fr, fr.prefix+"inl:"+shortFuncName(fn)+"/", pos)
	for i, p := range fn.Params {
		sub.regs[p] = args[i]
		sub.params[p.Name()] = args[i]
	}
	for i, fv := range fn.FreeVars {
		if i < len(free) {
			sub.regs[fv] = free[i]
		}
	}
	ex.vc.comment("inline " + fn.String())
	// the callee works on its own copy: its edges and exits keep referring to that object, which is never overwritten
	ex.runBody(sub, st.clone(), reach)
	for _, p := range sub.panics {
		fr.panics = append(fr.panics, p)
	}
	if len(sub.rets) == 0 {
		// never returns normally: the rest of the block is unreachable
		nr := False
		fr.newReach = &nr
		return ex.freshResults(fn.Signature, st)
	}
	var states []*State
	var conds []Term
	var vals []Val
	for _, r := range sub.rets {
		states = append(states, r.st.clone()) // r.st may be the caller's own state object
		conds = append(conds, r.cond)
		vals = append(vals, resultVal(r.vals))
	}
	merged := ex.merge(states, conds)
	*st = *merged
	// execution continues here only along the callee's returning paths (its panicking paths do not continue, and
	// a return after a loop carries the loop's exit condition)
	nr := Or(conds...)
	fr.newReach = &nr
	if len(vals) == 1 {
		return vals[0]
	}
	return ex.mergeVals("ret", vals, conds)
}

func (ex *Exec) freshResults(sig *types.Signature, st *State) Val {
	var vals []Val
	for i := 0; i < sig.Results().Len(); i++ {
		vals = append(vals, ex.freshVal("res", sig.Results().At(i).Type(), st))
	}
	return resultVal(vals)
}

// invoke: a call through an interface, resolved by the interface method's contract.
func (ex *Exec) invoke(fr *Frame, c *ssa.CallCommon, recv Val, args []Val, st *State, reach Term, pos token.Pos) Val {
	// narrowing: when the dynamic type is known at this point (the interface value was built from a concrete
	// value on this path), the call is resolved statically to the concrete method
	if rt, ok := recv.(Scalar); ok {
		if h, a := splitApp(rt.T.S); h == "mk-iface" && len(a) == 2 {
			if id, nilable, ok := soleDyn(a[0]); ok && id >= 1 && int(id) <= len(ex.vc.typeByID) {
				dt := ex.vc.typeByID[id-1]
				if m := ex.prog.SSA.LookupMethod(dt, c.Method.Pkg(), c.Method.Name()); m != nil && (len(m.Blocks) > 0 || ex.prog.Contracts.Funcs[m.String()] != nil) {
					if nilable {
						// the value is nil or of that one type: a call on nil panics, so past the check it is of the type
						o := ex.vc.oblige("nil", fr.name("nil:invoke "+c.Method.Name()), reach, Neq(IfDyn(rt.T), IntLit(0)), ex.where(pos))
						o.Descr = "method call on nil interface"
						ex.vc.assume(Implies(reach, Neq(IfDyn(rt.T), IntLit(0))))
					}
					self := ex.unboxIface(rt.T, dt)
					return ex.callFunc(fr, m, nil, append([]Val{self}, args...), st, reach, pos)
				}
			}
		}
	}
	key := c.Method.FullName()
	ct := ex.prog.Contracts.Funcs[key]
	// a contract stated for the static interface type of the receiver takes precedence over the one of the
	// interface that declares the method (seq.Sequence rows are mutable, plain feat.Range features are not)
	if n, ok := c.Value.Type().(*types.Named); ok && n.Obj().Pkg() != nil {
		k2 := "(" + n.Obj().Pkg().Path() + "." + n.Obj().Name() + ")." + c.Method.Name()
		if c2 := ex.prog.Contracts.Funcs[k2]; c2 != nil {
			key, ct = k2, c2
		}
	}
	if ct == nil {
		panic(unsupported("interface method call %s without an interface contract", key))
	}
	if !ct.Trusted {
		ex.vc.Assumptions["interface contract assumed of every implementation (checked only for the implementations under contract that are called statically): "+key] = true
	}
	sig := c.Method.Type().(*types.Signature)
	names := []string{"self"}
	for i := 0; i < sig.Params().Len(); i++ {
		n := sig.Params().At(i).Name()
		if n == "" || n == "_" {
			n = fmt.Sprintf("arg%d", i)
		}
		names = append(names, n)
	}
	rt := ex.scalar(recv)
	o := ex.vc.oblige("nil", fr.name("nil:invoke "+c.Method.Name()), reach, Neq(IfDyn(rt), IntLit(0)), ex.where(pos))
	o.Descr = "method call on nil interface"
	ex.vc.assume(Implies(reach, Neq(IfDyn(rt), IntLit(0))))
	all := append([]Val{recv}, args...)
	var pkg *ssa.Package
	if c.Method.Pkg() != nil {
		pkg = ex.prog.SSA.Package(c.Method.Pkg())
	}
	return ex.applyContract(fr, ct, names, all, sig, pkg, st, reach, pos, "("+shortType(c.Value.Type())+")."+c.Method.Name())
}

type designator struct {
	heap   string
	root   Term              // ref or array identity; for elem heaps the array
	all    bool              // every object of this heap
	member func(r Term) Term // a set of roots given by a predicate (x[*][*]: the arrays of all elements of x)
}

// outside: r is not an object named by the designator.
func (d designator) outside(r Term) Term {
	if d.member != nil {
		return Not(d.member(r))
	}
	return Neq(r, d.root)
}

// inside: r is an object named by the designator.
func (d designator) inside(r Term) Term {
	if d.member != nil {
		return d.member(r)
	}
	return Eq(r, d.root)
}

// applyContract uses a callee's contract at a call site.
func (ex *Exec) applyContract(fr *Frame, c *Contract, names []string, args []Val, sig *types.Signature, pkg *ssa.Package, st *State, reach Term, pos token.Pos, short string) Val {
	c.Used = true
	if c.Trusted {
		ex.vc.Assumptions["trusted contract: "+c.Key] = true
	}
	var tpkg *types.Package
	if pkg != nil {
		tpkg = pkg.Pkg
	} else if c.PkgPath != "" {
		if pk := ex.prog.pkgByPath[c.PkgPath]; pk != nil {
			tpkg = pk.Types
		}
	}
	if tpkg == nil {
		tpkg = fnPkg(fr.fn)
	}
	vars := map[string]Val{}
	for i, n := range names {
		if i < len(args) {
			vars[n] = args[i]
		}
	}
	if callee := ex.prog.FuncByKey[c.Key]; callee != nil {
		for i := range names {
			if i < len(args) {
				ex.aliasName(vars, callee, ex.prog.recordedParam(callee, i), names[i], args[i])
			}
		}
	}
	pre := st.clone()
	envPre := &SpecEnv{vars: vars, st: pre, lst: pre, pkg: tpkg, topOld: pre.top, recovered: ex.recoveredArg}
	envPre.old = envPre
	for _, rq := range c.Requires {
		g := ex.evalBool(rq.E, envPre)
		o := ex.vc.oblige("precondition", fr.name(fmt.Sprintf("call:%s.%s", short, rq.Name())), reach, g, ex.where(pos))
		o.Descr = rq.Text
		ex.vc.assume(Implies(reach, g))
	}
	// effects
	allocates := false
	for _, e := range c.Ensures {
		if strings.Contains(e.Text, "fresh(") {
			allocates = true
		}
	}
	var des []designator
	everything := len(c.Assigns) == 0 && !c.Pure
	for _, a := range c.Assigns {
		for _, part := range splitTop(a.Text, ',') {
			part = strings.TrimSpace(part)
			switch part {
			case "nothing":
			case "fresh":
				allocates = true
			case "everything":
				everything = true
			default:
				des = append(des, ex.evalDesignator(part, envPre)...)
			}
		}
	}
	topPre := pre.top
	if everything {
		ex.vc.Unmodelled["call to "+short+" havocs the whole heap (contract has no assigns clause)"] = true
		ex.bump(st, nil, nil)
		if ex.track != nil {
			ex.track.all = true
		}
		nt := ex.vc.fresh("top", SInt)
		ex.vc.assume(Ge(nt, topPre))
		st.top = nt
	} else if allocates || len(des) > 0 {
		byHeap := map[string][]designator{}
		for _, d := range des {
			byHeap[d.heap] = append(byHeap[d.heap], d)
			if ex.track != nil {
				if d.all || d.member != nil {
					ex.noteWrite(d.heap, ex.vc.fresh("anyroot", SInt))
				} else {
					ex.noteWrite(d.heap, d.root)
				}
			} else {
				ex.checkLoopFrames(d.heap, d)
			}
		}
		keep := func(name string, old, nh Term) Term {
			rv := Var("r?", SInt)
			guard := []Term{Lt(rv, topPre)}
			if strings.HasPrefix(name, "G|") {
				guard = nil // ghost heaps are keyed by arbitrary integers, not by references
			}
			for _, d := range byHeap[name] {
				if d.all {
					return True
				}
				guard = append(guard, d.outside(rv))
			}
			return Forall([]Bound{{"r?", SInt}}, Implies(And(guard...), Eq(Select(nh, rv), Select(old, rv))))
		}
		// Objects the callee allocates live in cells at or above topPre, about which nothing has been
		// assumed so far; existing cells of heaps outside the assigns clause are untouched. So only the
		// named heaps get a new version (with a frame for everything below topPre).
		names := map[string]bool{}
		for h := range byHeap {
			names[h] = true
		}
		if len(names) > 0 {
			ex.bump(st, names, keep)
		}
		if allocates {
			nt := ex.vc.fresh("top", SInt)
			ex.vc.assume(Ge(nt, topPre))
			st.top = nt
		}
	}
	// results
	var results []Val
	rvars := map[string]Val{}
	for k, v := range vars {
		rvars[k] = v
	}
	resDyn := ex.ensuresDynTypes(c, tpkg)
	for i := 0; i < sig.Results().Len(); i++ {
		rv := sig.Results().At(i)
		val := ex.freshVal("res", rv.Type(), st)
		if sc, isSc := val.(Scalar); isSc && sc.T.Sort == SIface {
			// an unconditional postcondition typeis(result, T) fixes the dynamic type: keep it syntactic (narrowing)
			dt, ok := resDyn[fmt.Sprintf("result%d", i)]
			if !ok && sig.Results().Len() == 1 {
				dt, ok = resDyn["result"]
			}
			if !ok && rv.Name() != "" {
				dt, ok = resDyn[rv.Name()]
			}
			if ok {
				val = Scalar{MkIface(ex.vc.typeID(dt), IfVal(sc.T)), sc.Ty}
			}
		}
		results = append(results, val)
		rvars[fmt.Sprintf("result%d", i)] = val
		if rv.Name() != "" && rv.Name() != "_" {
			rvars[rv.Name()] = val
		}
		if callee := ex.prog.FuncByKey[c.Key]; callee != nil {
			ex.aliasName(rvars, callee, ex.prog.recordedResult(callee, i), rv.Name(), val)
		}
	}
	if len(results) == 1 {
		rvars["result"] = results[0]
	}
	if c.Throws {
		// the callee may leave by an error-valued panic instead of returning; the state at that exit has
		// undergone the same effects (st is already havocked per the assigns clause) and satisfies the exsures clauses
		threw := ex.vc.fresh("threw", SBool)
		ev := ex.vc.fresh("thrown", SIface)
		ex.noteIface(errorType)
		ex.noteIface(ex.runtimeErrorType())
		ex.vc.assume(And(Neq(IfDyn(ev), IntLit(0)), Neq(IfVal(ev), IntLit(0)), ex.implementsTerm(IfDyn(ev), errorType), Not(ex.implementsTerm(IfDyn(ev), ex.runtimeErrorType()))))
		thrownSt := st.clone()
		pcond := ex.vc.define("threwhere", And(reach, threw))
		envEx := &SpecEnv{vars: vars, st: thrownSt, lst: thrownSt, pkg: tpkg, old: envPre, topOld: topPre, recovered: ex.recoveredArg}
		for _, e := range c.Exsures {
			ex.vc.assume(Implies(pcond, ex.evalBool(e.E, envEx)))
		}
		fr.panics = append(fr.panics, panicExit{pcond, Scalar{ev, errorType}, thrownSt, ex.where(pos), "error thrown by " + short, ex.vc.curCut, true})
		nr := And(reach, Not(threw))
		fr.newReach = &nr
		reach = ex.vc.define("returned", nr)
	}
	envPost := &SpecEnv{vars: rvars, st: st, lst: st, pkg: tpkg, old: envPre, topOld: topPre}
	envPre.recovered, envPost.recovered = ex.recoveredArg, ex.recoveredArg
	if len(c.Ghosts) > 0 {
		envPost.ghosts = map[string]string{}
		for _, g := range c.Ghosts {
			ex.vc.counter++
			var sorts []Sort
			for range g.Params {
				sorts = append(sorts, SInt)
			}
			envPost.ghosts[g.Name] = ex.vc.declareFun(fmt.Sprintf("ghost|%s!%d", g.Name, ex.vc.counter), sorts, SInt)
		}
	}
	for _, e := range c.Ensures {
		g := ex.evalBool(e.E, envPost)
		ex.vc.assume(Implies(reach, g))
	}
	return resultVal(results)
}

// ensuresDynTypes: results whose dynamic type an unconditional top-level postcondition conjunct typeis(r, T) fixes.
func (ex *Exec) ensuresDynTypes(c *Contract, pkg *types.Package) map[string]types.Type {
	out := map[string]types.Type{}
	var walk func(e Expr)
	walk = func(e Expr) {
		switch x := e.(type) {
		case EBinary:
			if x.Op == "&&" {
				walk(x.X)
				walk(x.Y)
			}
		case ECall:
			if id, ok := x.Fun.(EIdent); ok && id.Name == "typeis" && len(x.Args) == 2 {
				if v, ok := x.Args[0].(EIdent); ok {
					if te, err := exprToType(x.Args[1]); err == nil {
						if t, err := ex.prog.lookupType(te, pkg); err == nil {
							out[v.Name] = t
						}
					}
				}
			}
		}
	}
	for _, e := range c.Ensures {
		if e.E != nil {
			walk(e.E)
		}
	}
	return out
}

// splitTop splits s at sep outside brackets.
func splitTop(s string, sep byte) []string {
	var out []string
	depth, start := 0, 0
	for i := 0; i < len(s); i++ {
		switch s[i] {
		case '(', '[':
			depth++
		case ')', ']':
			depth--
		default:
			if s[i] == sep && depth == 0 {
				out = append(out, s[start:i])
				start = i + 1
			}
		}
	}
	return append(out, s[start:])
}

// evalDesignator turns an assigns item (x.f, x.f[*], x[*], *p, x.*) into heap names and roots.
func (ex *Exec) evalDesignator(text string, env *SpecEnv) []designator {
	text = strings.TrimSpace(text)
	if i := strings.LastIndex(text, " if "); i > 0 {
		// guarded designator: names the location only when the condition holds
		ce, err := ParseExpr(text[i+4:])
		if err != nil {
			ex.specFail("assigns %s: %v", text, err)
		}
		cond := ex.evalBool(ce, env)
		ds := ex.evalDesignator(text[:i], env)
		for j := range ds {
			if !ds[j].all {
				ds[j].root = Ite(cond, ds[j].root, IntLit(-999999))
			}
		}
		return ds
	}
	if strings.HasPrefix(text, "mbox(") && strings.HasSuffix(text, ")") {
		// the ghost state of a mailbox channel
		e, err := ParseExpr(text[len("mbox(") : len(text)-1])
		if err != nil {
			ex.specFail("assigns %s: %v", text, err)
		}
		cv := ex.evalSpec(e, env)
		ct, ok := under(cv.GoType()).(*types.Chan)
		if !ok {
			ex.specFail("assigns %s: not a channel", text)
		}
		ch := ex.scalar(cv)
		out := []designator{{heap: "G|mbox.full", root: ch}}
		for _, l := range leavesOf(ct.Elem()) {
			n, _ := ex.mboxLeafHeap(ct.Elem(), l, env.st)
			out = append(out, designator{heap: n, root: ch})
		}
		return out
	}
	if strings.HasPrefix(text, "allfields(") && strings.HasSuffix(text, ")") {
		// field f of every object of struct type T: allfields(pkg.T.f)
		arg := text[len("allfields(") : len(text)-1]
		i := strings.LastIndex(arg, ".")
		if i < 0 {
			ex.specFail("assigns %s: allfields(T.f) expected", text)
		}
		te, err := parseTypeText(arg[:i])
		if err != nil {
			ex.specFail("assigns %s: %v", text, err)
		}
		t, err := ex.prog.lookupType(te, env.pkg)
		if err != nil {
			ex.specFail("assigns %s: %v", text, err)
		}
		st, ok := under(t).(*types.Struct)
		if !ok {
			ex.specFail("assigns %s: not a struct type", text)
		}
		var out []designator
		for fi := 0; fi < st.NumFields(); fi++ {
			if st.Field(fi).Name() != arg[i+1:] {
				continue
			}
			for _, l := range leavesOf(st.Field(fi).Type()) {
				n, _ := fieldHeap(t, append([]int{fi}, l.Path...))
				out = append(out, designator{heap: n, all: true})
			}
		}
		if len(out) == 0 {
			ex.specFail("assigns %s: no such field", text)
		}
		return out
	}
	if strings.HasPrefix(text, "elems(") && strings.HasSuffix(text, ")") {
		// every array whose elements have the given type
		te, err := parseTypeText(text[len("elems(") : len(text)-1])
		if err != nil {
			ex.specFail("assigns %s: %v", text, err)
		}
		t, err := ex.prog.lookupType(te, env.pkg)
		if err != nil {
			ex.specFail("assigns %s: %v", text, err)
		}
		var out []designator
		for _, l := range leavesOf(t) {
			n, _ := elemHeap(t, l.Path)
			out = append(out, designator{heap: n, all: true})
		}
		return out
	}
	if strings.HasSuffix(text, "[*][*]") {
		// the elements of every slice held in x: a set of arrays given by a predicate
		e, err := ParseExpr(strings.TrimSuffix(text, "[*][*]"))
		if err != nil {
			ex.specFail("assigns %s: %v", text, err)
		}
		v := ex.evalSpec(e, env)
		sc, ok := v.(Scalar)
		if !ok {
			ex.specFail("assigns %s: not a slice of slices", text)
		}
		outer, ok := under(sc.Ty).(*types.Slice)
		if !ok {
			ex.specFail("assigns %s: not a slice of slices", text)
		}
		inner, ok := under(outer.Elem()).(*types.Slice)
		if !ok {
			ex.specFail("assigns %s: not a slice of slices", text)
		}
		st := env.st
		x := sc.T
		ex.vc.counter++
		cn := fmt.Sprintf("c?%d", ex.vc.counter)
		member := func(r Term) Term {
			cv := Var(cn, SInt)
			el := ex.scalar(ex.load(PtrV{Kind: rootElem, Slice: x, Idx: cv, RootTy: outer.Elem()}, st))
			return Exists([]Bound{{cn, SInt}}, And(Le(IntLit(0), cv), Lt(cv, SlLen(x)), Eq(r, SlArr(el))))
		}
		var out []designator
		for _, l := range leavesOf(inner.Elem()) {
			n, _ := elemHeap(inner.Elem(), l.Path)
			out = append(out, designator{heap: n, member: member})
		}
		return out
	}
	if strings.HasSuffix(text, "[*]") {
		e, err := ParseExpr(strings.TrimSuffix(text, "[*]"))
		if err != nil {
			ex.specFail("assigns %s: %v", text, err)
		}
		v := ex.evalSpec(e, env)
		sc, ok := v.(Scalar)
		if !ok {
			ex.specFail("assigns %s: not a slice", text)
		}
		if p, ok := ex.autoDeref(sc); ok {
			// pointer to array: the array leaf itself
			return ex.ptrDesignators(p)
		}
		sl, ok := under(sc.Ty).(*types.Slice)
		if !ok {
			ex.specFail("assigns %s: not a slice", text)
		}
		var out []designator
		for _, l := range leavesOf(sl.Elem()) {
			n, _ := elemHeap(sl.Elem(), l.Path)
			out = append(out, designator{heap: n, root: SlArr(sc.T)})
		}
		return out
	}
	if strings.HasSuffix(text, ".*") {
		e, err := ParseExpr(strings.TrimSuffix(text, ".*"))
		if err != nil {
			ex.specFail("assigns %s: %v", text, err)
		}
		p, ok := ex.autoDeref(ex.evalSpec(e, env))
		if !ok {
			ex.specFail("assigns %s: not a pointer", text)
		}
		return ex.ptrDesignators(p)
	}
	if strings.HasPrefix(text, "*") {
		e, err := ParseExpr(text[1:])
		if err != nil {
			ex.specFail("assigns %s: %v", text, err)
		}
		p, ok := ex.autoDeref(ex.evalSpec(e, env))
		if !ok {
			ex.specFail("assigns %s: not a pointer", text)
		}
		return ex.ptrDesignators(p)
	}
	if strings.HasSuffix(text, "(*)") {
		// a ghost field of every object: ghostname(*)
		if gf, ok := ex.prog.Contracts.Ghosts[strings.TrimSuffix(text, "(*)")]; ok {
			return []designator{{heap: "G|" + gf.Name, all: true}}
		}
		ex.specFail("assigns %s: unknown ghost field", text)
	}
	// x.f
	e, err := ParseExpr(text)
	if err != nil {
		ex.specFail("assigns %s: %v", text, err)
	}
	if ce, isCall := e.(ECall); isCall {
		if id, ok := ce.Fun.(EIdent); ok {
			if gf, ok := ex.prog.Contracts.Ghosts[id.Name]; ok && len(ce.Args) == 1 {
				a := ex.scalar(ex.evalSpec(ce.Args[0], env))
				if a.Sort == SIface {
					a = IfVal(a)
				}
				return []designator{{heap: "G|" + gf.Name, root: a}}
			}
		}
	}
	fe, ok := e.(EField)
	if !ok {
		ex.specFail("assigns %s: expected x.f, x.f[*], x[*], x.* or *p", text)
	}
	p, ok := ex.lvaluePtr(fe.X, env)
	if !ok {
		ex.specFail("assigns %s: %s is not a pointer (or a field path starting at one)", text, fe.X)
	}
	t := p.pointee()
	obj, index, _ := types.LookupFieldOrMethod(types.NewPointer(t), true, env.pkg, fe.Name)
	if obj == nil {
		if n, ok := derefNamed(t); ok && n.Obj().Pkg() != nil {
			obj, index, _ = types.LookupFieldOrMethod(types.NewPointer(t), true, n.Obj().Pkg(), fe.Name)
		}
	}
	if obj == nil {
		ex.specFail("assigns %s: no such field", text)
	}
	cur := p
	for i, fi := range index {
		cur = cur.withStep(Step{Field: fi}, nil)
		if i < len(index)-1 {
			if _, isPtr := under(cur.pointee()).(*types.Pointer); isPtr {
				cur = ex.asPtr(ex.load(cur, env.st))
			}
		}
	}
	return ex.ptrDesignators(cur)
}

// lvaluePtr: the location an expression denotes - a pointer value, or a (nested) struct field reached from one (x.f.g).
func (ex *Exec) lvaluePtr(e Expr, env *SpecEnv) (PtrV, bool) {
	if fe, ok := e.(EField); ok {
		if base, ok := ex.lvaluePtr(fe.X, env); ok {
			t := base.pointee()
			if _, isStruct := under(t).(*types.Struct); isStruct {
				obj, index, _ := types.LookupFieldOrMethod(types.NewPointer(t), true, env.pkg, fe.Name)
				if obj == nil {
					if n, ok := derefNamed(t); ok && n.Obj().Pkg() != nil {
						obj, index, _ = types.LookupFieldOrMethod(types.NewPointer(t), true, n.Obj().Pkg(), fe.Name)
					}
				}
				if fv, isVar := obj.(*types.Var); isVar && fv.IsField() {
					cur := base
					for i, fi := range index {
						cur = cur.withStep(Step{Field: fi}, nil)
						if i < len(index)-1 {
							if _, isPtr := under(cur.pointee()).(*types.Pointer); isPtr {
								cur = ex.asPtr(ex.load(cur, env.st))
							}
						}
					}
					if _, isPtr := under(cur.pointee()).(*types.Pointer); isPtr {
						return ex.asPtr(ex.load(cur, env.st)), true
					}
					if _, isStruct := under(cur.pointee()).(*types.Struct); isStruct {
						return cur, true
					}
				}
			}
		}
	}
	return ex.autoDeref(ex.evalSpec(e, env))
}

func (ex *Exec) ptrDesignators(p PtrV) []designator {
	t := p.pointee()
	basePath, _, err := splitSteps(p.Steps)
	if err != nil {
		panic(err)
	}
	var out []designator
	for _, l := range leavesOf(t) {
		path := append(append([]int(nil), basePath...), l.Path...)
		switch p.Kind {
		case rootRef:
			if isStruct(p.RootTy) {
				n, _ := fieldHeap(p.RootTy, path)
				out = append(out, designator{heap: n, root: p.Ref})
			} else {
				out = append(out, designator{heap: cellHeap(p.RootTy), root: p.Ref})
			}
		case rootElem:
			n, _ := elemHeap(p.RootTy, path)
			out = append(out, designator{heap: n, root: SlArr(p.Slice)})
		default:
			ex.specFail("assigns: local cells cannot be named")
		}
	}
	return out
}

// ---- builtins ----

func (ex *Exec) builtin(fr *Frame, b *ssa.Builtin, c *ssa.CallCommon, args []Val, st *State, reach Term, pos token.Pos) Val {
	intT := types.Typ[types.Int]
	switch b.Name() {
	case "len":
		v := args[0]
		if arr, ok := under(c.Args[0].Type()).(*types.Array); ok {
			return Scalar{IntLit(arr.Len()), intT}
		}
		if pt, ok := under(c.Args[0].Type()).(*types.Pointer); ok {
			if arr, ok := under(pt.Elem()).(*types.Array); ok {
				return Scalar{IntLit(arr.Len()), intT}
			}
		}
		t := ex.scalar(v)
		switch t.Sort {
		case SSlice:
			return Scalar{SlLen(t), intT}
		case SStr:
			return Scalar{StrLen(t), intT}
		}
		panic(unsupported("len of %s", shortType(c.Args[0].Type())))
	case "cap":
		t := ex.scalar(args[0])
		if t.Sort == SSlice {
			return Scalar{SlCap(t), intT}
		}
		panic(unsupported("cap of %s", shortType(c.Args[0].Type())))
	case "append":
		return ex.appendOp(fr, c, args, st, reach, pos)
	case "copy":
		return ex.copyOp(fr, c, args, st, reach, pos)
	case "recover":
		if fr.recovered != nil {
			return Scalar{*fr.recovered, c.Value.Type().(*types.Signature).Results().At(0).Type()}
		}
		if fr.parent == nil && ex.topRecovered != nil {
			return Scalar{*ex.topRecovered, c.Value.Type().(*types.Signature).Results().At(0).Type()}
		}
		return Scalar{NilIface, c.Value.Type().(*types.Signature).Results().At(0).Type()}
	case "close":
		return TupleV{}
	case "ssa:wrapnilchk":
		return args[0]
	case "ssa:deferstack":
		return Scalar{IntLit(0), intT}
	case "min", "max":
		a, bb := ex.scalar(args[0]), ex.scalar(args[1])
		if b.Name() == "min" {
			return Scalar{Ite(Le(a, bb), a, bb), c.Args[0].Type()}
		}
		return Scalar{Ite(Ge(a, bb), a, bb), c.Args[0].Type()}
	}
	panic(unsupported("builtin %s", b.Name()))
}

// appendOp models append exactly: in place when the capacity suffices, a fresh array otherwise.
func (ex *Exec) appendOp(fr *Frame, c *ssa.CallCommon, args []Val, st *State, reach Term, pos token.Pos) Val {
	s := ex.scalar(args[0])
	resTy := c.Args[0].Type()
	elem := under(resTy).(*types.Slice).Elem()
	var n Term
	var src Term
	srcIsString := false
	if isString(c.Args[1].Type()) {
		srcIsString = true
		src = ex.scalar(args[1])
		n = StrLen(src)
	} else {
		src = ex.scalar(args[1])
		n = SlLen(src)
	}
	s = ex.vc.define("aps", s)
	src = ex.vc.define("apx", src)
	newLen := ex.vc.define("aplen", Add(SlLen(s), n))
	inPlace := ex.vc.define("inplace", Le(newLen, SlCap(s)))
	fresh := ex.allocRef("arr", st)
	if ex.track != nil {
		ex.track.freshSym[fresh.S] = true
	}
	ncap := ex.vc.fresh("cap", SInt)
	ex.vc.assume(Ge(ncap, newLen))
	res := ex.vc.fresh("app", SSlice)
	ex.vc.assume(Eq(res, Ite(inPlace, MkSlice(SlArr(s), SlOff(s), newLen, SlCap(s)), MkSlice(fresh, IntLit(0), newLen, ncap))))
	rArr, rOff := SlArr(res), SlOff(res)
	for _, l := range leavesOf(elem) {
		name, lt := elemHeap(elem, l.Path)
		es := sortOf(lt)
		srt := ArraySort(ArraySort(es))
		h := st.heap(name, srt)
		nh := ex.vc.fresh(name, srt)
		rv, iv := Var("r?", SInt), Var("i?", SInt)
		// other arrays unchanged
		ex.vc.assume(Forall([]Bound{{"r?", SInt}}, Implies(Neq(rv, rArr), Eq(Select(nh, rv), Select(h, rv)))))
		// old elements
		ex.vc.assume(Forall([]Bound{{"i?", SInt}}, Implies(InRange(IntLit(0), iv, SlLen(s)),
			Eq(Select(Select(nh, rArr), At(res, iv)), Select(Select(h, SlArr(s)), At(s, iv))))))
		// appended elements
		var srcAt Term
		if srcIsString {
			srcAt = StrAt(src, iv)
		} else {
			srcAt = Select(Select(h, SlArr(src)), At(src, iv))
		}
		ex.vc.assume(Forall([]Bound{{"i?", SInt}}, Implies(InRange(IntLit(0), iv, n),
			Eq(Select(Select(nh, rArr), At(res, Add(SlLen(s), iv))), srcAt))))
		// the same, addressed by the position in the result (a trigger without arithmetic for goals about result[k])
		if !srcIsString {
			kv := Var("k?", SInt)
			ex.vc.assume(ForallPat([]Bound{{"k?", SInt}}, Implies(And(Le(SlLen(s), kv), Lt(kv, newLen)),
				Eq(Select(Select(nh, rArr), At(res, kv)), Select(Select(h, SlArr(src)), At(src, Sub(kv, SlLen(s)))))), [][]Term{{At(res, kv)}}))
		}
		// in place: everything outside the appended window keeps its value
		ex.vc.assume(Implies(inPlace, Forall([]Bound{{"i?", SInt}}, Implies(Or(Lt(iv, Add(rOff, SlLen(s))), Ge(iv, Add(rOff, newLen))),
			Eq(Select(Select(nh, rArr), iv), Select(Select(h, rArr), iv))))))
		st.heaps[name] = nh
		if ex.track != nil {
			// either the existing array (when capacity suffices) or a fresh one is written
			ex.noteWrite(name, SlArr(s))
			ex.noteWrite(name, fresh)
		}
	}
	return Scalar{res, resTy}
}

func (ex *Exec) copyOp(fr *Frame, c *ssa.CallCommon, args []Val, st *State, reach Term, pos token.Pos) Val {
	dst := ex.vc.define("cpd", ex.scalar(args[0]))
	elem := under(c.Args[0].Type()).(*types.Slice).Elem()
	srcIsString := isString(c.Args[1].Type())
	src := ex.vc.define("cps", ex.scalar(args[1]))
	var slen Term
	if srcIsString {
		slen = StrLen(src)
	} else {
		slen = SlLen(src)
	}
	n := ex.vc.define("cpn", Ite(Le(SlLen(dst), slen), SlLen(dst), slen))
	for _, l := range leavesOf(elem) {
		name, lt := elemHeap(elem, l.Path)
		srt := ArraySort(ArraySort(sortOf(lt)))
		h := st.heap(name, srt)
		nh := ex.vc.fresh(name, srt)
		rv, iv := Var("r?", SInt), Var("i?", SInt)
		dArr := SlArr(dst)
		ex.vc.assume(Forall([]Bound{{"r?", SInt}}, Implies(Neq(rv, dArr), Eq(Select(nh, rv), Select(h, rv)))))
		var srcAt Term
		if srcIsString {
			srcAt = StrAt(src, iv)
		} else {
			srcAt = Select(Select(h, SlArr(src)), At(src, iv))
		}
		ex.vc.assume(Forall([]Bound{{"i?", SInt}}, Implies(InRange(IntLit(0), iv, n),
			Eq(Select(Select(nh, dArr), At(dst, iv)), srcAt))))
		ex.vc.assume(Forall([]Bound{{"i?", SInt}}, Implies(Or(Lt(iv, SlOff(dst)), Ge(iv, Add(SlOff(dst), n))),
			Eq(Select(Select(nh, dArr), iv), Select(Select(h, dArr), iv)))))
		if !srcIsString {
			// the same fact keyed by the absolute cell address (matches reads through any other view of the array)
			ex.vc.assume(ForallPat([]Bound{{"i?", SInt}}, Implies(And(Le(SlOff(dst), iv), Lt(iv, Add(SlOff(dst), n))),
				Eq(Select(Select(nh, dArr), iv), Select(Select(h, SlArr(src)), Add(Sub(iv, SlOff(dst)), SlOff(src))))),
				[][]Term{{Select(Select(nh, dArr), iv)}}))
		}
		st.heaps[name] = nh
		ex.noteWrite(name, dArr)
		ex.mirrorView(dArr, name, st)
	}
	return Scalar{n, types.Typ[types.Int]}
}

func sortedKeys(m map[string]bool) []string {
	var ks []string
	for k := range m {
		ks = append(ks, k)
	}
	sort.Strings(ks)
	return ks
}

var errorType = types.Universe.Lookup("error").Type()

func (ex *Exec) runtimeErrorType() types.Type {
	if pk := ex.prog.pkgByPath["runtime"]; pk != nil && pk.Types != nil {
		if o := pk.Types.Scope().Lookup("Error"); o != nil {
			return o.Type()
		}
	}
	panic(unsupported("package runtime is not loaded"))
}
