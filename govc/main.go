package main

import (
	"encoding/json"
	"flag"
	"fmt"
	"os"
	"path/filepath"
	"sort"
	"strconv"
	"strings"
	"time"
)

type KnownFinding struct {
	Property   string `json:"property"`
	Obligation string `json:"obligation"`
	What       string `json:"what"`
	Input      string `json:"input,omitempty"`
}

type KnownFile struct {
	Findings []KnownFinding `json:"findings"`
	Fixed    []string       `json:"fixed"`
}

func main() {
	if len(os.Args) < 2 {
		fmt.Fprintln(os.Stderr, "usage: govc check|list|dump ...")
		os.Exit(2)
	}
	switch os.Args[1] {
	case "check":
		os.Exit(cmdCheck(os.Args[2:]))
	case "list":
		os.Exit(cmdList(os.Args[2:]))
	case "names":
		os.Exit(cmdNames(os.Args[2:]))
	default:
		fmt.Fprintln(os.Stderr, "unknown command", os.Args[1])
		os.Exit(2)
	}
}

func cmdList(args []string) int {
	fs := flag.NewFlagSet("list", flag.ExitOnError)
	repo := fs.String("repo", "/repo", "repository")
	specs := fs.String("specs", "/verif/specs", "trusted contract directory")
	fs.Parse(args)
	p, err := LoadProgram(*repo, *specs, []string{"./..."})
	if err != nil {
		fmt.Fprintln(os.Stderr, err)
		return 2
	}
	for _, k := range p.Contracts.SortedKeys() {
		c := p.Contracts.Funcs[k]
		fmt.Printf("%-80s props=%v trusted=%v\n", k, c.Props, c.Trusted)
	}
	return 0
}

func cmdCheck(args []string) int {
	fs := flag.NewFlagSet("check", flag.ExitOnError)
	repo := fs.String("repo", "/repo", "repository working tree")
	specs := fs.String("specs", "/verif/specs", "trusted contract directory")
	prop := fs.String("prop", "", "property id")
	tier := fs.String("tier", "quick", "quick|thorough")
	evidence := fs.String("evidence", "", "evidence file to write")
	known := fs.String("known", "/verif/known_findings.json", "known findings file")
	work := fs.String("work", "/verif/work", "scratch directory for queries")
	replays := fs.String("replays", "/verif/replays", "replay directory")
	only := fs.String("func", "", "restrict to functions whose key contains this text (debugging)")
	keep := fs.Bool("keep", false, "keep all generated .smt2 files")
	verbose := fs.Bool("v", false, "verbose")
	noReplay := fs.Bool("noreplay", false, "do not try to replay counterexamples")
	namesPath := fs.String("names", "/verif/names.json", "recorded names of the functions under contract")
	fs.Parse(args)
	if *prop == "" {
		fmt.Fprintln(os.Stderr, "-prop required")
		return 2
	}
	t0 := time.Now()
	seed := 0
	if s := os.Getenv("VERIF_SEED"); s != "" {
		seed, _ = strconv.Atoi(s)
	}
	p, err := LoadProgram(*repo, *specs, []string{"./..."})
	if err != nil {
		// the tree does not even load: nothing can be generated
		fmt.Fprintln(os.Stderr, "load error:", err)
		return reportLoadFailure(*prop, *tier, seed, *evidence, *replays, err, t0)
	}
	p.Names = loadNames(*namesPath)
	loadSecs := time.Since(t0).Seconds()
	var reps []*FuncReport
	for _, k := range p.Contracts.SortedKeys() {
		c := p.Contracts.Funcs[k]
		if c.Trusted || !hasProp(c, *prop) {
			continue
		}
		if c.Inline {
			continue // verified at every site it is inlined into (with that site's context), not on its own
		}
		if *only != "" && !strings.Contains(k, *only) {
			continue
		}
		rep := p.VerifyFunction(c, Options{InlineDepth: 6})
		reps = append(reps, rep)
	}
	genSecs := time.Since(t0).Seconds() - loadSecs
	wdir := filepath.Join(*work, *prop)
	os.RemoveAll(wdir)
	os.MkdirAll(wdir, 0o755)
	opt := SolveOptions{Timeout: 25 * time.Second, Seeds: []int{seed}, WorkDir: wdir, Parallel: 10, KeepAll: *keep}
	if *tier == "thorough" {
		opt.Timeout = 60 * time.Second
		opt.Seeds = []int{seed, seed + 1, seed + 2}
	}
	if *only != "" {
		*evidence = "" // a debugging run over a subset must not overwrite the property's evidence
	}
	onlyFilter = *only
	Discharge(reps, opt)
	return report(p, *prop, *tier, seed, reps, *evidence, *known, *replays, *repo, t0, loadSecs, genSecs, *verbose, *noReplay)
}

var onlyFilter string

func hasProp(c *Contract, p string) bool {
	for _, x := range c.Props {
		if x == p {
			return true
		}
	}
	return false
}

func reportLoadFailure(prop, tier string, seed int, evidence, replays string, err error, t0 time.Time) int {
	rdir := filepath.Join(replays, prop)
	os.MkdirAll(rdir, 0o755)
	path := filepath.Join(rdir, "load-failure.json")
	writeJSON(path, map[string]interface{}{"obligation": "contract-target:load", "verifier_output": err.Error()})
	fmt.Printf("VIOLATION property=%s replay=%s no-failing-input-found\n", prop, path)
	if evidence != "" {
		writeJSON(evidence, map[string]interface{}{
			"property_id": prop, "tier": tier, "seed": seed, "level": "other",
			"coverage":   map[string]interface{}{"explanation": "the repository (with -tags verif) failed to load/type-check, no obligation could be generated: " + err.Error()},
			"wall_s":     time.Since(t0).Seconds(),
			"violations": 1,
		})
	}
	return 1
}

func writeJSON(path string, v interface{}) {
	os.MkdirAll(filepath.Dir(path), 0o755)
	b, _ := json.MarshalIndent(v, "", " ")
	os.WriteFile(path, append(b, '\n'), 0o644)
}

func report(p *Program, prop, tier string, seed int, reps []*FuncReport, evidence, knownPath, replays, repo string, t0 time.Time, loadSecs, genSecs float64, verbose, noReplay bool) int {
	var kf KnownFile
	if b, err := os.ReadFile(knownPath); err == nil {
		json.Unmarshal(b, &kf)
	}
	known := map[string]KnownFinding{}
	for _, f := range kf.Findings {
		if f.Property == prop {
			known[f.Obligation] = f
		}
	}
	rdir := filepath.Join(replays, prop)
	os.RemoveAll(rdir)
	total, proved := 0, 0
	byBackend := map[string]int{}
	solverTime := 0.0
	var funcs []string
	var samples []interface{}
	assumptions := map[string]bool{}
	unmodelled := map[string]bool{}
	violations := 0
	var knownLines, violLines []string
	knownObls := 0
	vacuityChecks := 0
	var unstable []string
	for _, r := range reps {
		funcs = append(funcs, r.Short)
		if r.Err != "" {
			// the function could not be translated: every obligation it should have generated is unaccounted for
			total++
			name := r.Short + "#translate"
			if kfnd, ok := known[name]; ok {
				knownObls++
				knownLines = append(knownLines, fmt.Sprintf("KNOWN-FINDING: property=%s %s %s", prop, name, kfnd.What))
				continue
			}
			violations++
			path := filepath.Join(rdir, safeFile(name)+".json")
			writeJSON(path, map[string]interface{}{"obligation": name, "verifier_output": r.Err, "contract": r.Contract.Where})
			violLines = append(violLines, fmt.Sprintf("VIOLATION property=%s replay=%s no-failing-input-found", prop, path))
			fmt.Fprintf(os.Stderr, "  %s: %s\n", name, r.Err)
			continue
		}
		for a := range r.VC.Assumptions {
			assumptions[a] = true
		}
		for a := range r.VC.Unmodelled {
			unmodelled[a] = true
		}
		for _, o := range r.VC.Obls {
			solverTime += o.Time
			if o.ExpectSat {
				vacuityChecks++
				if o.Status == "failed" {
					violations++
					path := filepath.Join(rdir, safeFile(o.Name)+".json")
					writeJSON(path, map[string]interface{}{"obligation": o.Name, "verifier_output": o.Output, "smt2": o.SmtFile, "note": "broken check (vacuous contract), not a property violation"})
					violLines = append(violLines, fmt.Sprintf("VIOLATION property=%s replay=%s no-failing-input-found", prop, path))
				}
				continue
			}
			total++
			if verbose {
				fmt.Fprintf(os.Stderr, "  %-8s %-7s %6.2fs %s\n", o.Status, o.Solver, o.Time, o.Name)
			}
			if o.Status == "proved" {
				proved++
				byBackend[o.Solver]++
				if len(samples) < 8 {
					samples = append(samples, map[string]interface{}{"obligation": o.Name, "kind": o.Kind, "clause": o.Descr, "where": o.Where, "solver": o.Solver, "secs": round3(o.Time)})
				}
				continue
			}
			if kfnd, ok := known[o.Name]; ok {
				knownObls++
				knownLines = append(knownLines, fmt.Sprintf("KNOWN-FINDING: property=%s %s %s", prop, o.Name, kfnd.What))
				continue
			}
			violations++
			path := filepath.Join(rdir, safeFile(o.Name)+".json")
			rp := map[string]interface{}{"obligation": o.Name, "kind": o.Kind, "clause": o.Descr, "where": o.Where, "status": o.Status,
				"solver": o.Solver, "solvers": o.ByWhich, "verifier_output": firstLines(o.Output+o.Model, 400), "smt2": o.SmtFile}
			suffix := " no-failing-input-found"
			if o.Status == "failed" && !noReplay {
				if ok, info := tryReplay(p, r, o, repo, rdir); ok {
					suffix = ""
					rp["replay"] = info
				} else if info != nil {
					rp["replay"] = info
				}
			}
			writeJSON(path, rp)
			violLines = append(violLines, fmt.Sprintf("VIOLATION property=%s replay=%s%s", prop, path, suffix))
			fmt.Fprintf(os.Stderr, "  FAILED %s (%s by %s) at %s\n      %s\n", o.Name, o.Status, o.Solver, o.Where, o.Descr)
		}
	}
	// bounded stand-ins (executed lemma clients); never counted as proved
	bounded, _ := runBounded(repo, prop, tier, seed)
	for i := range bounded {
		b := &bounded[i]
		// deviations the stand-in itself classifies into a recorded class: each class must be listed in the known-findings file
		for _, f := range b.Findings {
			fname := "bounded:" + b.Name + ":" + f.ID
			if kfnd, ok := known[fname]; ok {
				knownLines = append(knownLines, fmt.Sprintf("KNOWN-FINDING: property=%s %s %s", prop, fname, kfnd.What))
				continue
			}
			violations++
			path := filepath.Join(rdir, safeFile(fname)+".json")
			writeJSON(path, map[string]interface{}{"obligation": fname, "kind": "bounded", "package": b.Package, "test": b.Test, "cases": f.Cases, "failing_input": f.Example,
				"replay_cmd": fmt.Sprintf("cd %s && go test -tags verif -vet=off -count=1 -v -run '^%s$' ./%s", repo, b.Test, b.Package)})
			violLines = append(violLines, fmt.Sprintf("VIOLATION property=%s replay=%s", prop, path))
			fmt.Fprintf(os.Stderr, "  FAILED bounded check %s: unlisted finding %s (%d cases), e.g. %s\n", b.Name, f.ID, f.Cases, f.Example)
		}
		if b.Passed {
			continue
		}
		name := "bounded:" + b.Name
		if kfnd, ok := known[name]; ok {
			knownLines = append(knownLines, fmt.Sprintf("KNOWN-FINDING: property=%s %s %s", prop, name, kfnd.What))
			continue
		}
		violations++
		path := filepath.Join(rdir, safeFile(name)+".json")
		writeJSON(path, map[string]interface{}{"obligation": name, "kind": "bounded", "package": b.Package, "test": b.Test,
			"replay_cmd":      fmt.Sprintf("cd %s && go test -tags verif -vet=off -count=1 -v -run '^%s$' ./%s", repo, b.Test, b.Package),
			"verifier_output": lastLines(b.Output, 60)})
		violLines = append(violLines, fmt.Sprintf("VIOLATION property=%s replay=%s", prop, path))
		fmt.Fprintf(os.Stderr, "  FAILED bounded check %s\n%s\n", b.Name, lastLines(b.Output, 15))
	}
	// every known finding must still be reported by a failing obligation; a finding that no longer fails is stale but harmless
	sort.Strings(knownLines)
	for _, l := range knownLines {
		fmt.Println(l)
	}
	for _, l := range violLines {
		fmt.Println(l)
	}
	// a contract on a function of the repository that is used at a call site but never verified itself would be a silent assumption
	for _, k := range p.Contracts.SortedKeys() {
		c := p.Contracts.Funcs[k]
		if !c.Used || c.Trusted || len(c.Props) > 0 {
			continue
		}
		if fn := p.FuncByKey[c.Key]; fn != nil && len(fn.Blocks) > 0 && p.InRepo(fn) {
			path := filepath.Join(rdir, safeFile("untagged:"+c.ShortKey)+".json")
			writeJSON(path, map[string]interface{}{"obligation": "contract-target:untagged " + c.ShortKey, "verifier_output": "the contract of " + c.Key + " is relied upon at a call site but carries no property tag, so it is never verified", "contract": c.Where})
			fmt.Printf("VIOLATION property=%s replay=%s no-failing-input-found\n", prop, path)
			violations++
		}
	}
	// an inline function is verified only where it is inlined: one that carries this property but was inlined nowhere
	// in this run has not been verified at all
	for _, k := range p.Contracts.SortedKeys() {
		c := p.Contracts.Funcs[k]
		if c.Inline && hasProp(c, prop) && !c.Used && !c.Trusted && onlyFilter == "" {
			path := filepath.Join(rdir, safeFile("inline-unused:"+c.ShortKey)+".json")
			writeJSON(path, map[string]interface{}{"obligation": "contract-target:inline-unused " + c.ShortKey, "verifier_output": "the inline contract of " + c.Key + " carries this property but no verified function of the property inlines it, so it is never verified", "contract": c.Where})
			fmt.Printf("VIOLATION property=%s replay=%s no-failing-input-found\n", prop, path)
			violations++
		}
	}
	if len(reps) == 0 {
		fmt.Printf("VIOLATION property=%s replay=%s no-failing-input-found\n", prop, filepath.Join(rdir, "no-contracts.json"))
		writeJSON(filepath.Join(rdir, "no-contracts.json"), map[string]interface{}{"obligation": "contract-target", "verifier_output": "no function under contract carries this property"})
		violations++
	}
	wall := time.Since(t0).Seconds()
	if evidence != "" {
		var as, um []string
		for a := range assumptions {
			as = append(as, a)
		}
		for a := range unmodelled {
			um = append(um, a)
		}
		sort.Strings(as)
		sort.Strings(um)
		as = append(as, "int, int64, uint, uint64 are mathematical integers (no overflow); sized integer types wrap exactly",
			"float64 is modelled as Real",
			"entry heap is well formed: slices within capacity, distinct struct objects do not overlap, interior pointers are not stored",
			"no other goroutine runs during the call")
		sort.Strings(funcs)
		discharged := proved
		cov := map[string]interface{}{
			"obligations":               total - knownObls,
			"discharged":                discharged,
			"known_finding_obligations": knownObls,
			"known_findings_reported":   len(knownLines),
			"checker_cmd":               fmt.Sprintf("/verif/check %s --tier %s", prop, tier),
			"trusted_base":              []string{"go/packages + go/ssa (x/tools v0.29.0, NaiveForm)", "govc VC generator (/verif/govc)", "z3 5.1.0 (z3-new), z3 4.8.12, cvc5 1.0.3"},
			"by_backend":                byBackend,
			"solver_time_s":             round3(solverTime),
			"load_s":                    round3(loadSecs),
			"vcgen_s":                   round3(genSecs),
			"functions_under_contract":  funcs,
			"vacuity_checks":            vacuityChecks,
			"unmodelled":                um,
			"samples":                   samples,
			"unstable":                  unstable,
			"bounded_checks":            bounded,
		}
		if extra := loadExtraCoverage(prop); extra != nil {
			for k, v := range extra {
				cov[k] = v
			}
		}
		ev := map[string]interface{}{
			"property_id": prop, "tier": tier, "seed": seed, "level": "proof",
			"coverage": cov, "assumptions": as, "wall_s": round3(wall), "violations": violations,
		}
		if total-knownObls == 0 || discharged == 0 {
			ev["level"] = "other"
			cov["explanation"] = "no obligation was discharged in this run"
		}
		if cov["decided_by"] == "bounded" {
			// the property's main clause is decided by the bounded stand-ins only; the proved obligations cover auxiliary functions
			ev["level"] = "exploration"
			evals, nontriv, exh := 0, 0, len(bounded) > 0
			var rules []string
			for _, b := range bounded {
				evals += b.Cases
				nontriv += b.Nontrivial
				exh = exh && b.Exhaustive
				rules = append(rules, b.Name+": "+b.Domain)
			}
			cov["evaluations"] = evals
			cov["distinct_nontrivial"] = nontriv
			cov["exhaustive"] = exh
			cov["rule"] = "bounded stand-ins enumerate their stated domain completely; a case is non-trivial by the rule stated in the stand-in (e.g. reference differs from query, history not skipped); " + strings.Join(rules, " | ")
			var bs []interface{}
			for _, b := range bounded {
				for _, f := range b.Findings {
					bs = append(bs, map[string]interface{}{"check": b.Name, "classified_finding": f.ID, "example": f.Example})
				}
				bs = append(bs, map[string]interface{}{"check": b.Name, "domain": b.Domain, "cases": b.Cases})
			}
			cov["samples"] = append(bs, samples...)
		}
		writeJSON(evidence, ev)
	}
	fmt.Fprintf(os.Stderr, "%s: %d obligations, %d proved, %d known findings, %d violations, %d vacuity checks; load %.1fs gen %.1fs total %.1fs\n",
		prop, total, proved, len(knownLines), violations, vacuityChecks, loadSecs, genSecs, wall)
	if violations > 0 {
		return 1
	}
	return 0
}

func lastLines(s string, n int) string {
	ls := strings.Split(strings.TrimRight(s, "\n"), "\n")
	if len(ls) > n {
		ls = ls[len(ls)-n:]
	}
	return strings.Join(ls, "\n")
}

func round3(f float64) float64 { return float64(int(f*1000+0.5)) / 1000 }

// loadExtraCoverage merges static per-property notes (not_covered clauses etc.) kept in /verif/coverage/<id>.json.
func loadExtraCoverage(prop string) map[string]interface{} {
	b, err := os.ReadFile(filepath.Join("/verif/coverage", prop+".json"))
	if err != nil {
		return nil
	}
	var m map[string]interface{}
	if json.Unmarshal(b, &m) != nil {
		return nil
	}
	return m
}
