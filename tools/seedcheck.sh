#!/bin/bash
# usage: seedcheck.sh <seed-dir-with-_out> <property> <name> <demo-pkg-dir> [test pkgs...]
# Confirms a seeded change (patch.diff + demo_test.go) in a scratch worktree, then runs the property's check against that worktree (VERIF_REPO); /repo is not touched.
set -u
export GOFLAGS=-mod=mod GOPROXY=off GOSUMDB=off GOTOOLCHAIN=local
OUT="$1/_out"; PROP="$2"; NAME="$3"; PKG="$4"; shift 4
TESTS="${*:-./...}"
WT=$(mktemp -d /tmp/seedchk.XXXXXX); rmdir "$WT"
git -C /repo worktree add -q --detach "$WT" HEAD || exit 2
cleanup() { git -C /repo worktree remove --force "$WT" 2>/dev/null; rm -rf "$WT" "$WT.log" "$WT.check"; }
trap cleanup EXIT
cd "$WT"
git apply "$OUT/patch.diff" || { echo "SEED: patch does not apply"; exit 2; }
go build ./... || { echo "SEED: does not build"; exit 2; }
if go test -vet=off -count=1 $TESTS >$WT.log 2>&1; then echo "SEED: existing tests pass with the change"; else echo "SEED: existing tests FAIL with the change"; tail -5 $WT.log; exit 2; fi
cp "$OUT/demo_test.go" "$PKG/verif_seed_demo_test.go"
if go test -vet=off -count=1 "./$PKG" >$WT.log 2>&1; then echo "SEED: demo PASSES with the change (bad)"; exit 2; else echo "SEED: demo fails with the change"; fi
git apply -R "$OUT/patch.diff"
if go test -vet=off -count=1 "./$PKG" >$WT.log 2>&1; then echo "SEED: demo passes without the change"; else echo "SEED: demo FAILS without the change (bad)"; tail -5 $WT.log; exit 2; fi
git apply "$OUT/patch.diff" || exit 2
rm -f "$PKG/verif_seed_demo_test.go"
cd /verif
VERIF_REPO=$WT ./check "$PROP" -evidence $WT/_ev.json -work $WT/_work -replays $WT/_replays > $WT.check 2>&1; RC=$?
grep -E "VIOLATION|FAILED" $WT.check | head -8; rm -f $WT.check
echo "SEED: check $PROP exit=$RC"
mkdir -p "/verif/seeded/$NAME"
cp "$OUT/patch.diff" "$OUT/demo_test.go" "/verif/seeded/$NAME/"
[ -f "$OUT/notes.md" ] && cp "$OUT/notes.md" "/verif/seeded/$NAME/"
exit 0
