#!/bin/bash
# Must-fail corpus: every seeded change under /verif/seeded must still make its property's check exit 1.
# Each seed is applied in its own scratch worktree of /repo (under /tmp, removed afterwards) and checked with
# VERIF_REPO pointing there, so /repo itself is never touched. usage: selftest.sh [-j N] [name-substring]
export GOFLAGS=-mod=mod GOPROXY=off GOSUMDB=off GOTOOLCHAIN=local
J=6; [ "$1" = "-j" ] && { J=$2; shift 2; }
FILTER="${1:-}"
ROOT=/tmp/selftest; rm -rf $ROOT; mkdir -p $ROOT
cd /verif && ./setup.sh >/dev/null 2>&1
run_one() {
  name=$1; prop=$(python3 -c "import json;print(json.load(open('/verif/seeded/$name/meta.json'))['property'])")
  wt=$ROOT/$name
  git -C /repo worktree add -q --detach $wt HEAD 2>/dev/null || { echo "$name: cannot create worktree"; return; }
  if ! git -C $wt apply /verif/seeded/$name/patch.diff 2>/dev/null; then
    echo "$name ($prop): PATCH-DOES-NOT-APPLY"
  else
    VERIF_REPO=$wt /verif/check $prop -evidence $wt/_ev.json -work $wt/_work -replays $wt/_replays -noreplay > $wt/_out.txt 2>&1; rc=$?
    what=$(grep -c "VIOLATION" $wt/_out.txt)
    ded=$(grep "FAILED" $wt/_out.txt | grep -vc "bounded check")
    if [ $rc -eq 1 ]; then echo "$name ($prop): detected ($what violation lines, $ded deductive obligations failed)"; else echo "$name ($prop): MISSED exit=$rc"; fi
  fi
  git -C /repo worktree remove --force $wt 2>/dev/null; rm -rf $wt
}
export -f run_one; export ROOT
ls /verif/seeded | grep "$FILTER" | xargs -P $J -I{} bash -c 'run_one {}'
git -C /repo worktree prune; rm -rf $ROOT
