package main

import (
	"fmt"
	"go/types"
	"sort"
	"strings"

	"golang.org/x/tools/go/ssa"
)

// FuncReport is what was generated for one function under contract.
type FuncReport struct {
	Key      string
	Short    string
	Contract *Contract
	VC       *VC
	Err      string // translation failure (function outside the subset, contract error)
	Prefix   []string
	Inlined  []string
}

// VerifyFunction generates all obligations for the function the contract is attached to.
func (p *Program) VerifyFunction(c *Contract, opts Options) (rep *FuncReport) {
	rep = &FuncReport{Key: c.Key, Short: c.ShortKey, Contract: c}
	fn := p.FuncByKey[c.Key]
	short := c.Key
	if fn != nil {
		short = fn.Pkg.Pkg.Name() + "." + shortFuncName(fn)
	}
	rep.Short = short
	vc := NewVC(short)
	rep.VC = vc
	if fn == nil {
		rep.Err = fmt.Sprintf("contract-target: function %s not found in the current tree", c.Key)
		return rep
	}
	ex := &Exec{prog: p, vc: vc, opts: opts, contract: c, fn: fn, props: c.Props}
	defer func() {
		if r := recover(); r != nil {
			switch e := r.(type) {
			case unsupportedErr:
				rep.Err = e.Error()
			case specErr:
				rep.Err = e.Error()
			default:
				panic(r)
			}
		}
	}()
	// every loop annotation must find its loop
	// (loops of contract-less helpers count at their call sites). Annotations of a loop the function no longer
	// has are proof hints without an object: they are ignored, and the postconditions must be provable without them.
	nLoops := len(p.expandedLoopKeys(fn, 0, map[*ssa.Function]bool{fn: true}))
	for n := range c.Loops {
		if n < 1 {
			rep.Err = fmt.Sprintf("contract-target: %s: contract mentions loop %d", short, n)
			return rep
		}
		if n > nLoops {
			vc.Assumptions[fmt.Sprintf("annotations of loop %d of %s ignored: the function has only %d loop(s) now", n, short, nLoops)] = true
		}
	}
	ex.verifyTop()
	return rep
}

func (ex *Exec) verifyTop() {
	fn, c, vc := ex.fn, ex.contract, ex.vc
	st := &State{locals: map[*ssa.Alloc]Val{}, iters: map[ssa.Value]Term{}, heaps: map[string]Term{}}
	st.origin = func(name string, sort Sort) Term {
		first := !vc.declared[quoteSym(name+"@0")]
		h := vc.declare(name+"@0", sort)
		if ax := heapRangeAxiom(name, h); first && !ax.IsTrue() {
			vc.lateDecls = append(vc.lateDecls, "(assert "+ax.S+")")
		}
		if ax := heapRefAxiom(name, h, Term{"top@0", SInt}); first && !ax.IsTrue() {
			vc.lateDecls = append(vc.lateDecls, "(assert "+ax.S+")")
		}
		return h
	}
	st.top = vc.declare("top@0", SInt)
	vc.assume(Gt(st.top, IntLit(0)))
	fr := ex.newFrame(fn, nil, "")
	fr.depth = 0
	for i, prm := range fn.Params {
		v := ex.paramVal(prm.Name(), prm.Type(), st)
		fr.regs[prm] = v
		fr.params[prm.Name()] = v
		ex.aliasName(fr.params, fn, ex.prog.recordedParam(fn, i), prm.Name(), v)
	}
	if len(fn.FreeVars) > 0 {
		panic(unsupported("closure %s verified on its own", fn))
	}
	if usesRecover(fn) {
		r := vc.declare("p!recovered", SIface)
		ex.typeFacts(r, types.NewInterfaceType(nil, nil), st)
		ex.topRecovered = &r
	}
	entry := st.clone()
	ex.entryState = entry
	envPre := &SpecEnv{vars: fr.params, st: entry, lst: entry, pkg: fnPkg(fn), topOld: entry.top}
	envPre.old = envPre
	for _, g := range ex.prog.Contracts.Globals {
		if g.Axiom {
			continue // emitted on demand, see emitAxioms
		}
		genv := *envPre
		if pk := ex.prog.pkgByPath[g.PkgPath]; pk != nil {
			genv.pkg = pk.Types
		}
		func() {
			defer func() {
				if r := recover(); r != nil {
					if _, ok := r.(specErr); ok {
						return // fact about a package this function does not see
					}
					panic(r)
				}
			}()
			t := ex.evalBool(g.E, &genv)
			vc.assume(t)
			vc.Assumptions["trusted global fact: "+g.Text] = true
		}()
	}
	defer ex.emitAxioms(envPre)
	for _, rq := range c.Requires {
		vc.assume(ex.evalBool(rq.E, envPre))
	}
	o := vc.oblige("vacuity", "vacuity:requires", True, False, c.Where)
	o.ExpectSat = true
	o.Descr = "the preconditions (and input well-formedness) are satisfiable"

	ex.runBody(fr, st, True)
	for _, ca := range c.CallAsserts {
		if !ex.assertHit[ca] {
			// an assertion attached to a call that does not exist (any more) would hold vacuously
			o := vc.oblige("assert", "assert-unmatched:"+ca.Clause.Label, True, False, ca.Clause.Where)
			o.Descr = "no call to " + ca.Callee + " was found in the function: the assertion is attached to nothing"
		}
	}

	// panics
	endCut := vc.curCut
	defer func() { vc.curCut = endCut }()
	for _, p := range fr.panics {
		if c.MayPanic {
			continue
		}
		vc.curCut = endCut
		if p.hasCut {
			vc.curCut = p.cut // hypotheses as they were where the panic is raised
		}
		if c.Throws {
			// error-valued panics are part of the contract; anything else must be unreachable
			pv := ex.scalar(p.val)
			ex.noteIface(errorType)
			ex.noteIface(ex.runtimeErrorType())
			isErr := And(ex.implementsTerm(IfDyn(pv), errorType), Not(ex.implementsTerm(IfDyn(pv), ex.runtimeErrorType())), Neq(IfVal(pv), IntLit(0)))
			o := vc.oblige("panic", "panic-is-error:"+strings.Trim(p.text, "\""), p.cond, isErr, p.where)
			o.Descr = "a panic leaving this function carries an error value (not a runtime.Error, not a string)"
			if len(c.Exsures) > 0 {
				env := &SpecEnv{vars: fr.params, st: p.st, lst: p.st, pkg: fnPkg(fn), old: envPre, topOld: entry.top}
				for _, e := range c.Exsures {
					oe := vc.oblige("postcondition", e.Name()+"@"+strings.Trim(p.text, "\""), p.cond, ex.evalBool(e.E, env), e.Where)
					oe.Descr = e.Text
				}
			}
			continue
		}
		if len(c.Panics) > 0 {
			env := &SpecEnv{vars: fr.params, st: p.st, lst: p.st, pkg: fnPkg(fn), old: envPre, topOld: entry.top}
			var conds []Term
			for _, pc := range c.Panics {
				conds = append(conds, ex.evalBool(pc.E, env))
			}
			o := vc.oblige("panic", "panic-allowed:"+strings.Trim(p.text, "\""), p.cond, Or(conds...), p.where)
			o.Descr = "an explicit panic happens only under the conditions the contract lists"
			continue
		}
		name := "panic:" + strings.Trim(p.text, "\"")
		if p.text == "" {
			name = "panic:value"
		}
		if len(name) > 60 {
			name = name[:60]
		}
		o := vc.oblige("panic", name, p.cond, False, p.where)
		o.Descr = "explicit panic must be unreachable under the contract"
	}
	if len(fr.rets) == 0 {
		return
	}
	// merge exits
	var states []*State
	var conds []Term
	var vals []Val
	for _, r := range fr.rets {
		states = append(states, r.st)
		conds = append(conds, r.cond)
		vals = append(vals, resultVal(r.vals))
	}
	exit := ex.merge(states, conds)
	var result Val
	if len(vals) == 1 {
		result = vals[0]
	} else {
		result = ex.mergeVals("ret", vals, conds)
	}
	reach := ex.vc.define("exit", Or(conds...))
	rvars := map[string]Val{}
	for k, v := range fr.params {
		rvars[k] = v
	}
	sig := fn.Signature
	var results []Val
	if tv, ok := result.(TupleV); ok {
		results = tv.E
	} else {
		results = []Val{result}
	}
	for i := 0; i < sig.Results().Len(); i++ {
		rv := sig.Results().At(i)
		rvars[fmt.Sprintf("result%d", i)] = results[i]
		if rv.Name() != "" && rv.Name() != "_" {
			rvars[rv.Name()] = results[i]
		}
		ex.aliasName(rvars, fn, ex.prog.recordedResult(fn, i), rv.Name(), results[i])
	}
	if sig.Results().Len() == 1 {
		rvars["result"] = results[0]
	}
	envPost := &SpecEnv{vars: rvars, st: exit, lst: exit, pkg: fnPkg(fn), old: envPre, topOld: entry.top}
	for _, e := range c.Ensures {
		ex.proving = true
		g := ex.evalBool(e.E, envPost)
		ex.proving = false
		o := vc.oblige("postcondition", e.Name(), reach, g, e.Where)
		o.Descr = e.Text
	}
	// frame
	if len(c.Assigns) > 0 || c.Pure {
		ex.checkAssigns(fr, entry, exit, reach, envPre)
	}
	// canary: "ensures false" must fail
	cn := vc.oblige("vacuity", "vacuity:canary", reach, False, c.Where)
	cn.ExpectSat = true
	cn.Descr = "some execution reaches the exit (ensures false must not be provable)"
}

func (ex *Exec) paramVal(name string, t types.Type, st *State) Val {
	switch u := under(t).(type) {
	case *types.Struct:
		out := StructV{Ty: t, F: make([]Val, u.NumFields())}
		for i := range out.F {
			out.F[i] = ex.paramVal(name+"."+u.Field(i).Name(), u.Field(i).Type(), st)
		}
		return out
	case *types.Signature:
		return ParamFuncV{Name: name, Ty: t}
	}
	c := ex.vc.declare("p!"+name, sortOf(t))
	ex.typeFacts(c, t, st)
	ex.sizeHints(c, t, st, 0)
	return Scalar{c, t}
}

// sizeHints records bounds on the sizes of an input (slices and strings at most 3 long, also inside the struct a
// pointer parameter points to and, for slices of slices, for every element). They are never part of a proof: when
// no solver decides an obligation, a second query with these bounds added looks for a small counter-model.
func (ex *Exec) sizeHints(c Term, t types.Type, st *State, depth int) {
	if depth > 1 {
		return
	}
	switch u := under(t).(type) {
	case *types.Slice:
		ex.vc.SizeHints = append(ex.vc.SizeHints, Le(SlLen(c), IntLit(3)).S, Le(SlCap(c), IntLit(4)).S)
		if inner, ok := under(u.Elem()).(*types.Slice); ok {
			name, lt := elemHeap(u.Elem(), nil)
			h := st.heap(name, ArraySort(ArraySort(sortOf(lt))))
			iv := Var("h?", SInt)
			el := Select(Select(h, SlArr(c)), iv)
			ex.vc.SizeHints = append(ex.vc.SizeHints, Forall([]Bound{{"h?", SInt}}, And(Le(SlLen(el), IntLit(3)), Le(SlCap(el), IntLit(4)))).S)
			_ = inner
		}
	case *types.Basic:
		if c.Sort == SStr {
			ex.vc.SizeHints = append(ex.vc.SizeHints, Le(StrLen(c), IntLit(3)).S)
		}
	case *types.Pointer:
		sty, ok := under(u.Elem()).(*types.Struct)
		if !ok {
			return
		}
		for _, l := range leavesOf(u.Elem()) {
			srt := sortOf(l.Ty)
			if srt != SSlice && srt != SStr {
				continue
			}
			name, lt := fieldHeap(u.Elem(), l.Path)
			h := st.heap(name, ArraySort(sortOf(lt)))
			ex.sizeHints(Select(h, c), l.Ty, st, depth+1)
		}
		_ = sty
	}
}

// checkAssigns proves that nothing outside the declared frame changed for objects that existed at entry.
func (ex *Exec) checkAssigns(fr *Frame, entry, exit *State, reach Term, envPre *SpecEnv) {
	c := ex.contract
	byHeap := map[string][]designator{}
	for _, a := range c.Assigns {
		for _, part := range splitTop(a.Text, ',') {
			part = strings.TrimSpace(part)
			switch part {
			case "nothing", "fresh":
			case "everything":
				return
			default:
				for _, d := range ex.evalDesignator(part, envPre) {
					byHeap[d.heap] = append(byHeap[d.heap], d)
				}
			}
		}
	}
	names := exit.heapNames()
	sort.Strings(names)
	for _, n := range names {
		cur := exit.heaps[n]
		old := entry.heap(n, cur.Sort)
		if cur.S == old.S {
			continue
		}
		rv := Var("r?", SInt)
		guard := []Term{Lt(IntLit(0), rv), Lt(rv, entry.top)}
		skip := false
		for _, d := range byHeap[n] {
			if d.all {
				skip = true
				continue
			}
			guard = append(guard, d.outside(rv))
		}
		if skip {
			continue
		}
		var goal Term
		if cur.Sort.Elem().IsArray() {
			// element heaps: compare element by element (no reliance on array extensionality)
			iv := Var("i?", SInt)
			goal = ForallPat([]Bound{{"r?", SInt}, {"i?", SInt}}, Implies(And(guard...), Eq(Select(Select(cur, rv), iv), Select(Select(old, rv), iv))),
				[][]Term{{Select(Select(cur, rv), iv)}})
		} else {
			goal = Forall([]Bound{{"r?", SInt}}, Implies(And(guard...), Eq(Select(cur, rv), Select(old, rv))))
		}
		o := ex.vc.oblige("assigns", "assigns:"+heapDisplay(n), reach, goal, c.Where)
		o.Descr = "nothing outside the declared frame is modified"
	}
}

func heapDisplay(n string) string {
	parts := strings.SplitN(n, "|", 3)
	if len(parts) == 3 {
		t := parts[1]
		if i := strings.LastIndex(t, "/"); i >= 0 {
			t = t[i+1:]
		}
		switch parts[0] {
		case "F":
			return t + "." + parts[2]
		case "E":
			if parts[2] != "" {
				return "[]" + t + "." + parts[2]
			}
			return "[]" + t
		}
		return "*" + t
	}
	if len(parts) == 2 {
		return "*" + parts[1]
	}
	return n
}

// script renders the SMT-LIB prefix common to all obligations of the VC.
func (rep *FuncReport) header(ex *VC) []string {
	var out []string
	out = append(out, strings.Split(strings.TrimSpace(smtPrelude), "\n")...)
	out = append(out, ex.decls...)
	out = append(out, ex.lateDecls...)
	return out
}

// specFuncsOf collects the uninterpreted specification functions an expression mentions (through macros).
func (ex *Exec) specFuncsOf(e Expr, out map[string]bool, seen map[string]bool) {
	ex.specFuncsOfIn(e, out, seen, "")
}

func (ex *Exec) specFuncsOfIn(e Expr, out map[string]bool, seen map[string]bool, pkgPath string) {
	var walk func(e Expr)
	walk = func(e Expr) {
		switch x := e.(type) {
		case EUnary:
			walk(x.X)
		case EBinary:
			walk(x.X)
			walk(x.Y)
		case ECond:
			walk(x.C)
			walk(x.A)
			walk(x.B)
		case EField:
			walk(x.X)
		case EIndex:
			walk(x.X)
			walk(x.I)
		case ESlice:
			walk(x.X)
			if x.Lo != nil {
				walk(x.Lo)
			}
			if x.Hi != nil {
				walk(x.Hi)
			}
		case EAssert:
			walk(x.X)
		case EOld:
			walk(x.X)
		case EQuant:
			walk(x.Body)
			for _, g := range x.Triggers {
				for _, t := range g {
					walk(t)
				}
			}
		case ECall:
			for _, a := range x.Args {
				walk(a)
			}
			if id, ok := x.Fun.(EIdent); ok {
				if sf := ex.prog.Contracts.Spec(id.Name, pkgPath); sf != nil {
					if sf.Body == nil {
						out[sf.Name] = true
					} else if !seen[sf.Name] {
						seen[sf.Name] = true
						walk(sf.Body)
					}
				}
			}
		}
	}
	walk(e)
}

// emitAxioms adds the definitional axioms of exactly those specification functions the VC uses
// (transitively), so that unrelated recursive definitions do not burden every query.
func (ex *Exec) emitAxioms(env *SpecEnv) {
	vc := ex.vc
	type ax struct {
		g     *GlobalFact
		funcs map[string]bool
		done  bool
	}
	var axs []*ax
	for _, g := range ex.prog.Contracts.Globals {
		if !g.Axiom {
			continue
		}
		a := &ax{g: g, funcs: map[string]bool{}}
		ex.specFuncsOfIn(g.E, a.funcs, map[string]bool{}, g.PkgPath)
		axs = append(axs, a)
	}
	used := func(name string) bool { return vc.declared[quoteSym("spec|"+name)] }
	savedLines := vc.lines
	for changed := true; changed; {
		changed = false
		for _, a := range axs {
			if a.done {
				continue
			}
			need := false
			for f := range a.funcs {
				if used(f) {
					need = true
				}
			}
			if !need {
				continue
			}
			a.done, changed = true, true
			genv := *env
			if pk := ex.prog.pkgByPath[a.g.PkgPath]; pk != nil {
				genv.pkg = pk.Types
			}
			func() {
				defer func() {
					if r := recover(); r != nil {
						if _, ok := r.(specErr); ok {
							return
						}
						panic(r)
					}
				}()
				vc.lines = nil
				t := ex.evalBool(a.g.E, &genv)
				vc.lateDecls = append(vc.lateDecls, "(assert "+t.S+")")
				vc.Assumptions["definitional axiom of a specification function: "+a.g.Text] = true
			}()
		}
	}
	vc.lines = savedLines
}

func usesRecover(fn *ssa.Function) bool {
	for _, b := range fn.Blocks {
		for _, in := range b.Instrs {
			if c, ok := in.(*ssa.Call); ok {
				if bi, ok := c.Call.Value.(*ssa.Builtin); ok && bi.Name() == "recover" {
					return true
				}
			}
		}
	}
	return false
}

// aliasName lets a contract keep using the recorded name of a parameter or result that has been renamed.
func (ex *Exec) aliasName(vars map[string]Val, fn *ssa.Function, recorded, current string, v Val) {
	if recorded == "" || recorded == "_" || recorded == current {
		return
	}
	if _, taken := vars[recorded]; taken {
		return
	}
	vars[recorded] = v
	ex.vc.Assumptions[fmt.Sprintf("%s of %s is what the contract calls %s (matched by recorded position)", current, fn.Name(), recorded)] = true
}
