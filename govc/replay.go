package main

// tryReplay attempts to turn a solver model into a failing execution of the real code.
func tryReplay(p *Program, rep *FuncReport, o *Obligation, repo, rdir string) (bool, map[string]interface{}) {
	return false, nil
}
