package main

import (
	"fmt"
	"math/big"
	"strings"
)

// Sort is an SMT-LIB sort, printed verbatim.
type Sort string

const (
	SInt   Sort = "Int"
	SBool  Sort = "Bool"
	SReal  Sort = "Real"
	SSlice Sort = "Slice"
	SStr   Sort = "Str"
	SIface Sort = "Iface"
)

func ArraySort(elem Sort) Sort { return Sort("(Array Int " + string(elem) + ")") }

func (s Sort) IsArray() bool { return strings.HasPrefix(string(s), "(Array Int ") }
func (s Sort) Elem() Sort {
	if !s.IsArray() {
		panic("Elem of non-array sort " + string(s))
	}
	return Sort(strings.TrimSuffix(strings.TrimPrefix(string(s), "(Array Int "), ")"))
}

// Term is an SMT-LIB term with its sort.
type Term struct {
	S    string
	Sort Sort
}

var (
	True  = Term{"true", SBool}
	False = Term{"false", SBool}
)

func (t Term) String() string { return t.S }
func (t Term) IsTrue() bool   { return t.S == "true" }
func (t Term) IsFalse() bool  { return t.S == "false" }

func App(sort Sort, op string, args ...Term) Term {
	var b strings.Builder
	b.WriteByte('(')
	b.WriteString(op)
	for _, a := range args {
		b.WriteByte(' ')
		b.WriteString(a.S)
	}
	b.WriteByte(')')
	return Term{b.String(), sort}
}

func IntLit(n int64) Term {
	if n < 0 {
		// avoid overflow on MinInt64
		return Term{"(- " + new(big.Int).Neg(big.NewInt(n)).String() + ")", SInt}
	}
	return Term{fmt.Sprint(n), SInt}
}

func BigLit(n *big.Int) Term {
	if n.Sign() < 0 {
		return Term{"(- " + new(big.Int).Neg(n).String() + ")", SInt}
	}
	return Term{n.String(), SInt}
}

func RealLit(r *big.Rat) Term {
	neg := r.Sign() < 0
	a := new(big.Rat).Abs(r)
	s := "(/ " + a.Num().String() + ".0 " + a.Denom().String() + ".0)"
	if a.IsInt() {
		s = a.Num().String() + ".0"
	}
	if neg {
		s = "(- " + s + ")"
	}
	return Term{s, SReal}
}

func BoolLit(b bool) Term {
	if b {
		return True
	}
	return False
}

func Var(name string, sort Sort) Term { return Term{quoteSym(name), sort} }

// quoteSym makes a legal SMT-LIB symbol out of an arbitrary name.
func quoteSym(name string) string {
	simple := true
	for i, r := range name {
		switch {
		case r >= 'a' && r <= 'z', r >= 'A' && r <= 'Z', r == '_', r == '.', r == '$', r == '@', r == '!', r == '%':
		case r >= '0' && r <= '9':
			if i == 0 {
				simple = false
			}
		default:
			simple = false
		}
	}
	if simple && name != "" {
		return name
	}
	name = strings.ReplaceAll(name, "|", "!")
	name = strings.ReplaceAll(name, "\\", "!")
	return "|" + name + "|"
}

func And(ts ...Term) Term {
	var keep []Term
	for _, t := range ts {
		if t.IsFalse() {
			return False
		}
		if t.IsTrue() {
			continue
		}
		keep = append(keep, t)
	}
	switch len(keep) {
	case 0:
		return True
	case 1:
		return keep[0]
	}
	return App(SBool, "and", keep...)
}

func Or(ts ...Term) Term {
	var keep []Term
	for _, t := range ts {
		if t.IsTrue() {
			return True
		}
		if t.IsFalse() {
			continue
		}
		keep = append(keep, t)
	}
	switch len(keep) {
	case 0:
		return False
	case 1:
		return keep[0]
	}
	return App(SBool, "or", keep...)
}

func Not(t Term) Term {
	if t.IsTrue() {
		return False
	}
	if t.IsFalse() {
		return True
	}
	if strings.HasPrefix(t.S, "(not ") {
		return Term{t.S[5 : len(t.S)-1], SBool}
	}
	return App(SBool, "not", t)
}

func Implies(a, b Term) Term {
	if a.IsTrue() {
		return b
	}
	if a.IsFalse() || b.IsTrue() {
		return True
	}
	return App(SBool, "=>", a, b)
}

func Iff(a, b Term) Term { return App(SBool, "=", a, b) }

func Ite(c, a, b Term) Term {
	if c.IsTrue() {
		return a
	}
	if c.IsFalse() {
		return b
	}
	if a.S == b.S {
		return a
	}
	if a.Sort != b.Sort {
		panic(fmt.Sprintf("ite sort mismatch %s:%s vs %s:%s", a.S, a.Sort, b.S, b.Sort))
	}
	return App(a.Sort, "ite", c, a, b)
}

func Eq(a, b Term) Term {
	if a.Sort != b.Sort {
		panic(fmt.Sprintf("eq sort mismatch %s:%s vs %s:%s", a.S, a.Sort, b.S, b.Sort))
	}
	if a.S == b.S {
		return True
	}
	return App(SBool, "=", a, b)
}

func Neq(a, b Term) Term { return Not(Eq(a, b)) }

func Add(a, b Term) Term {
	if b.S == "0" {
		return a
	}
	if a.S == "0" {
		return b
	}
	if a.Sort == SInt {
		// (+ (+ x c1) c2) and (- (+ x c1) c2) style folding keeps index terms syntactically equal
		if cb, ok := litVal(b.S); ok {
			if h, args := splitApp(a.S); h == "+" && len(args) == 2 {
				if ca, ok := litVal(args[1]); ok {
					return Add(Term{args[0], SInt}, IntLit(ca+cb))
				}
			}
			if h, args := splitApp(a.S); h == "-" && len(args) == 2 {
				if ca, ok := litVal(args[1]); ok {
					return Add(Term{args[0], SInt}, IntLit(cb-ca))
				}
			}
			if ca, ok := litVal(a.S); ok {
				return IntLit(ca + cb)
			}
			if cb < 0 {
				return App(SInt, "-", a, IntLit(-cb))
			}
		}
	}
	return App(a.Sort, "+", a, b)
}

func litVal(s string) (int64, bool) {
	if len(s) == 0 || len(s) > 18 {
		return 0, false
	}
	neg := false
	t := s
	if strings.HasPrefix(s, "(- ") && strings.HasSuffix(s, ")") {
		neg = true
		t = s[3 : len(s)-1]
	}
	var n int64
	for _, c := range t {
		if c < '0' || c > '9' {
			return 0, false
		}
		n = n*10 + int64(c-'0')
	}
	if neg {
		n = -n
	}
	return n, true
}
func Sub(a, b Term) Term {
	if b.S == "0" {
		return a
	}
	if a.Sort == SInt {
		if cb, ok := litVal(b.S); ok {
			return Add(a, IntLit(-cb))
		}
	}
	return App(a.Sort, "-", a, b)
}
func Neg(a Term) Term   { return App(a.Sort, "-", a) }
func Lt(a, b Term) Term { return App(SBool, "<", a, b) }
func Le(a, b Term) Term { return App(SBool, "<=", a, b) }
func Gt(a, b Term) Term { return App(SBool, ">", a, b) }
func Ge(a, b Term) Term { return App(SBool, ">=", a, b) }
func Select(a, i Term) Term {
	return App(a.Sort.Elem(), "select", a, i)
}
func Store(a, i, v Term) Term {
	if v.Sort != a.Sort.Elem() {
		panic(fmt.Sprintf("store sort mismatch: array %s value %s:%s", a.Sort, v.S, v.Sort))
	}
	return App(a.Sort, "store", a, i, v)
}

func InRange(lo, x, hi Term) Term { return And(Le(lo, x), Lt(x, hi)) }

// Quantifiers.
type Bound struct {
	Name string
	Sort Sort
}

// ForallPat is Forall with explicit triggers (each a multi-pattern).
func ForallPat(bs []Bound, body Term, pats [][]Term) Term {
	if len(bs) == 0 || body.IsTrue() {
		return body
	}
	var b strings.Builder
	b.WriteString("(! " + body.S)
	for _, p := range pats {
		b.WriteString(" :pattern (")
		for i, t := range p {
			if i > 0 {
				b.WriteString(" ")
			}
			b.WriteString(t.S)
		}
		b.WriteString(")")
	}
	b.WriteString(")")
	return quant("forall", bs, Term{b.String(), SBool})
}

func Forall(bs []Bound, body Term) Term {
	if len(bs) == 0 || body.IsTrue() {
		return body
	}
	if pats := inferPatterns(bs, body.S); len(pats) > 0 {
		var b strings.Builder
		b.WriteString("(! " + body.S)
		for _, p := range pats {
			b.WriteString(" :pattern " + p)
		}
		b.WriteString(")")
		return quant("forall", bs, Term{b.String(), SBool})
	}
	return quant("forall", bs, body)
}
func Exists(bs []Bound, body Term) Term {
	if len(bs) == 0 || body.IsFalse() {
		return body
	}
	return quant("exists", bs, body)
}
func quant(q string, bs []Bound, body Term) Term {
	var b strings.Builder
	b.WriteString("(" + q + " (")
	for _, v := range bs {
		fmt.Fprintf(&b, "(%s %s)", quoteSym(v.Name), v.Sort)
	}
	b.WriteString(") " + body.S + ")")
	return Term{b.String(), SBool}
}

// splitApp splits "(head a1 a2 ...)" into head and top-level arguments.
func splitApp(s string) (string, []string) {
	if len(s) < 2 || s[0] != '(' || s[len(s)-1] != ')' {
		return "", nil
	}
	body := s[1 : len(s)-1]
	var parts []string
	depth, start, inBar := 0, 0, false
	for i := 0; i < len(body); i++ {
		c := body[i]
		switch {
		case c == '|':
			inBar = !inBar
		case inBar:
		case c == '(':
			depth++
		case c == ')':
			depth--
		case c == ' ' && depth == 0:
			if i > start {
				parts = append(parts, body[start:i])
			}
			start = i + 1
		}
	}
	if start < len(body) {
		parts = append(parts, body[start:])
	}
	if len(parts) == 0 {
		return "", nil
	}
	return parts[0], parts[1:]
}

// project simplifies (acc (ctor a0 a1 ...)) to a_i.
func project(acc string, sort Sort, ctor string, i int, t Term) Term {
	if strings.HasPrefix(t.S, "("+ctor+" ") {
		if h, args := splitApp(t.S); h == ctor && i < len(args) {
			return Term{args[i], sort}
		}
	}
	return App(sort, acc, t)
}

// Slice datatype accessors.
func SlArr(s Term) Term { return project("sl.arr", SInt, "mk-slice", 0, s) }
func SlOff(s Term) Term { return project("sl.off", SInt, "mk-slice", 1, s) }
func SlLen(s Term) Term { return project("sl.len", SInt, "mk-slice", 2, s) }
func SlCap(s Term) Term { return project("sl.cap", SInt, "mk-slice", 3, s) }
func MkSlice(arr, off, ln, cp Term) Term {
	return App(SSlice, "mk-slice", arr, off, ln, cp)
}

var NilSlice = MkSlice(IntLit(0), IntLit(0), IntLit(0), IntLit(0))

// Str datatype accessors.
func StrData(s Term) Term { return project("gs.data", ArraySort(SInt), "mk-gstr", 0, s) }
func StrOff(s Term) Term  { return project("gs.off", SInt, "mk-gstr", 1, s) }
func StrLen(s Term) Term  { return project("gs.len", SInt, "mk-gstr", 2, s) }
func MkStr(data, off, ln Term) Term {
	return App(SStr, "mk-gstr", data, off, ln)
}
func StrAt(s, i Term) Term { return Select(StrData(s), SAt(s, i)) }

// At is the absolute position of element i of a slice inside its backing array (off+i), kept behind an
// uninterpreted symbol (defined by an axiom in the prelude) so that triggers contain no arithmetic.
func At(s, i Term) Term  { return App(SInt, "at", s, i) }
func SAt(s, i Term) Term { return App(SInt, "sat", s, i) }

// Iface datatype accessors.
func IfDyn(s Term) Term { return project("if.dyn", SInt, "mk-iface", 0, s) }
func IfVal(s Term) Term { return project("if.val", SInt, "mk-iface", 1, s) }
func MkIface(dyn, val Term) Term {
	return App(SIface, "mk-iface", dyn, val)
}

var NilIface = MkIface(IntLit(0), IntLit(0))

const smtPrelude = `(declare-datatypes ((Slice 0)) (((mk-slice (sl.arr Int) (sl.off Int) (sl.len Int) (sl.cap Int)))))
(declare-datatypes ((Str 0)) (((mk-gstr (gs.data (Array Int Int)) (gs.off Int) (gs.len Int)))))
(declare-datatypes ((Iface 0)) (((mk-iface (if.dyn Int) (if.val Int)))))
(declare-fun at (Slice Int) Int)
(assert (forall ((s Slice) (i Int)) (! (= (at s i) (+ (sl.off s) i)) :pattern ((at s i)))))
(declare-fun sat (Str Int) Int)
(assert (forall ((s Str) (i Int)) (! (= (sat s i) (+ (gs.off s) i)) :pattern ((sat s i)))))
`

// soleDyn inspects the dynamic-type component of an interface term: a literal type id, 0 (nil), or an if-then-else
// tree whose leaves are 0 and one single type id. It returns that id and whether nil is among the leaves.
func soleDyn(d string) (id int64, nilable bool, ok bool) {
	if n, lit := litVal(d); lit {
		if n == 0 {
			return 0, true, true
		}
		return n, false, n >= 1
	}
	h, a := splitApp(d)
	if h != "ite" || len(a) != 3 {
		return 0, false, false
	}
	i1, n1, ok1 := soleDyn(a[1])
	i2, n2, ok2 := soleDyn(a[2])
	if !ok1 || !ok2 {
		return 0, false, false
	}
	switch {
	case i1 == 0:
		return i2, true, true
	case i2 == 0:
		return i1, true, true
	case i1 == i2:
		return i1, n1 || n2, true
	}
	return 0, false, false
}
