package main

import (
	"fmt"
	"go/constant"
	"go/token"
	"go/types"
	"math/big"
	"strings"

	"golang.org/x/tools/go/ssa"
)

// SpecEnv is the context a specification expression is evaluated in.
type SpecEnv struct {
	vars      map[string]Val
	st        *State // heap state
	lst       *State // state holding local cells (differs from st inside old())
	old       *SpecEnv
	pkg       *types.Package
	fr        *Frame    // for resolving source-level locals (loop invariants); may be nil
	li        *loopInfo // current loop (for idx)
	topOld    Term      // allocation watermark for fresh()
	isOld     bool
	ghosts    map[string]string // ghost function name -> SMT function symbol of this application
	recovered *Term             // value of recovered() (the in-flight panic value seen by a deferred function)
	pos       token.Pos         // program point for resolving locals (call-site assertions); overrides the loop position
}

func (env *SpecEnv) with(name string, v Val) *SpecEnv {
	n := *env
	n.vars = make(map[string]Val, len(env.vars)+1)
	for k, x := range env.vars {
		n.vars[k] = x
	}
	n.vars[name] = v
	if env.old != nil && !env.isOld {
		o := *env.old
		o.vars = make(map[string]Val, len(env.old.vars)+1)
		for k, x := range env.old.vars {
			o.vars[k] = x
		}
		o.vars[name] = v
		n.old = &o
	}
	return &n
}

var nilType = types.Typ[types.UntypedNil]

func (ex *Exec) specFail(f string, a ...interface{}) {
	panic(specErr(fmt.Sprintf(f, a...)))
}

type specErr string

func (s specErr) Error() string { return "contract error: " + string(s) }

func (ex *Exec) evalBool(e Expr, env *SpecEnv) Term {
	v := ex.evalSpec(e, env)
	t := ex.scalar(v)
	if t.Sort != SBool {
		ex.specFail("expression %s is not boolean", e)
	}
	return t
}

// loopEnv builds the environment for loop clauses: names resolve to current locals.
func (ex *Exec) loopEnv(fr *Frame, li *loopInfo, st *State) *SpecEnv {
	if fr.contract == nil && fr.loopOwner != nil && fr.loopOwner != fr && fr.loopOwner.entry != nil {
		// a loop of a contract-less helper, annotated by the contract of the function it is inlined into:
		// old() and fresh() refer to that function's entry
		o := fr.loopOwner
		old := &SpecEnv{vars: o.params, st: o.entry, lst: st, pkg: fnPkg(o.fn), fr: o, isOld: true, topOld: o.entry.top}
		return &SpecEnv{vars: map[string]Val{}, st: st, lst: st, old: old, pkg: fnPkg(fr.fn), fr: fr, li: li, topOld: o.entry.top}
	}
	old := &SpecEnv{vars: fr.params, st: fr.entry, lst: st, pkg: fnPkg(fr.fn), fr: fr, li: li, isOld: true, topOld: fr.entry.top}
	return &SpecEnv{vars: map[string]Val{}, st: st, lst: st, old: old, pkg: fnPkg(fr.fn), fr: fr, li: li, topOld: fr.entry.top}
}

// findLocal resolves a source-level variable name visible at the loop.
func (ex *Exec) findLocal(fr *Frame, li *loopInfo, name string) *ssa.Alloc {
	return ex.findLocalAt(fr, li, token.NoPos, name)
}

func (ex *Exec) findLocalAt(fr *Frame, li *loopInfo, at token.Pos, name string) *ssa.Alloc {
	if fr == nil {
		return nil
	}
	pos := at
	if li != nil && !at.IsValid() {
		// a position inside the loop statement
		for _, b := range fr.fn.Blocks {
			if !li.body[b.Index] {
				continue
			}
			for _, in := range b.Instrs {
				if p := in.Pos(); p.IsValid() && (pos == 0 || p > pos) {
					pos = p
				}
			}
		}
	}
	var cands []*ssa.Alloc
	for _, a := range fr.fn.Locals {
		if a.Comment == name {
			cands = append(cands, a)
		}
	}
	for _, b := range fr.fn.Blocks {
		for _, in := range b.Instrs {
			if a, ok := in.(*ssa.Alloc); ok && a.Heap && a.Comment == name {
				cands = append(cands, a)
			}
		}
	}
	if len(cands) == 0 {
		// the function has no variable of that name (any more): the recorded position may tell which one is meant
		as := ex.prog.renamedLocals(fr.fn, name)
		if len(as) == 0 {
			return nil
		}
		a := as[0]
		if len(as) > 1 && pos.IsValid() {
			// several renamed variables shared the old name: take the one whose new name is in scope here
			if sc := fnPkg(fr.fn).Scope().Innermost(pos); sc != nil {
				for _, c := range as {
					if _, obj := sc.LookupParent(c.Comment, pos); obj != nil && obj.Pos() == c.Pos() {
						a = c
						break
					}
				}
			}
		}
		ex.vc.Assumptions[fmt.Sprintf("local %s of %s is the variable the contract calls %s (matched by recorded position and type)", a.Comment, fr.fn.Name(), name)] = true
		return a
	}
	if len(cands) == 1 {
		return cands[0]
	}
	if pos.IsValid() {
		if sc := fnPkg(fr.fn).Scope().Innermost(pos); sc != nil {
			if _, obj := sc.LookupParent(name, pos); obj != nil {
				for _, a := range cands {
					if a.Pos() == obj.Pos() {
						return a
					}
				}
			}
		}
	}
	// fall back: latest declaration before the loop
	var best *ssa.Alloc
	for _, a := range cands {
		if a.Pos() <= pos && (best == nil || a.Pos() > best.Pos()) {
			best = a
		}
	}
	if best == nil {
		best = cands[0]
	}
	return best
}

func (ex *Exec) evalSpec(e Expr, env *SpecEnv) Val {
	switch x := e.(type) {
	case EIdent:
		return ex.specIdent(x.Name, env)
	case EInt:
		n, ok := new(big.Int).SetString(x.V, 0)
		if !ok {
			ex.specFail("bad integer %s", x.V)
		}
		return Scalar{BigLit(n), types.Typ[types.Int]}
	case EFloat:
		r, ok := new(big.Rat).SetString(x.V)
		if !ok {
			ex.specFail("bad number %s", x.V)
		}
		return Scalar{RealLit(r), types.Typ[types.Float64]}
	case EChar:
		return Scalar{IntLit(x.V), types.Typ[types.Int]}
	case EString:
		return Scalar{ex.stringConst(x.V), types.Typ[types.String]}
	case EBool:
		return Scalar{BoolLit(x.V), types.Typ[types.Bool]}
	case ENil:
		return Scalar{IntLit(0), nilType}
	case EOld:
		if env.old == nil {
			ex.specFail("old() is not available here: %s", e)
		}
		o := env.old
		if env.ghosts != nil && o.ghosts == nil {
			oc := *o
			oc.ghosts = env.ghosts
			o = &oc
		}
		return ex.evalSpec(x.X, o)
	case EUnary:
		v := ex.evalSpec(x.X, env)
		switch x.Op {
		case "!":
			return Scalar{Not(ex.scalar(v)), types.Typ[types.Bool]}
		case "-":
			return Scalar{Neg(ex.scalar(v)), v.GoType()}
		case "*":
			return ex.load(ex.asPtr(v), env.st)
		}
	case EBinary:
		return ex.specBinary(x, env)
	case ECond:
		c := ex.evalBool(x.C, env)
		a := ex.evalSpec(x.A, env)
		b := ex.evalSpec(x.B, env)
		a, b = ex.coerceNil(a, b)
		return ex.iteVals(c, a, b)
	case EField:
		return ex.specField(x, env)
	case EIndex:
		return ex.specIndex(x, env)
	case ESlice:
		return ex.specSlice(x, env)
	case ECall:
		return ex.specCall(x, env)
	case EAssert:
		v := ex.scalar(ex.evalSpec(x.X, env))
		t, err := ex.prog.lookupType(x.T, env.pkg)
		if err != nil {
			ex.specFail("%v", err)
		}
		return ex.unboxIface(v, t)
	case EQuant:
		return ex.specQuant(x, env)
	}
	ex.specFail("cannot evaluate %s", e)
	return nil
}

func (ex *Exec) iteVals(c Term, a, b Val) Val {
	switch av := a.(type) {
	case StructV:
		bv := b.(StructV)
		out := StructV{Ty: av.Ty, F: make([]Val, len(av.F))}
		for i := range av.F {
			out.F[i] = ex.iteVals(c, av.F[i], bv.F[i])
		}
		return out
	}
	ta, tb := ex.scalar(a), ex.scalar(b)
	ty := a.GoType()
	if ty == nilType {
		ty = b.GoType()
	}
	return Scalar{Ite(c, ta, tb), ty}
}

func (ex *Exec) specIdent(name string, env *SpecEnv) Val {
	if v, ok := env.vars[name]; ok {
		return v
	}
	if env.fr != nil {
		if a := ex.findLocalAt(env.fr, env.li, env.pos, name); a != nil {
			if isLocalCell(a) {
				if v, ok := env.lst.locals[a]; ok {
					return v
				}
				ex.specFail("local %s is not live at this point", name)
			}
			if p, ok := env.fr.regs[a]; ok {
				return ex.load(ex.asPtr(p), env.st)
			}
			ex.specFail("local %s is not live at this point", name)
		}
	}
	if name == "idx" && env.fr != nil && env.li != nil {
		return Scalar{ex.loopIdx(env.fr, env.li, env.lst), types.Typ[types.Int]}
	}
	// inside a contract-less helper the annotation (written for the function the helper is inlined into) may name
	// variables of the callers: they are still live in the shared state
	if env.fr != nil && env.fr.contract == nil && env.fr.loopOwner != nil {
		for f := env.fr; f != env.fr.loopOwner && f.parent != nil; f = f.parent {
			if a := ex.findLocalAt(f.parent, nil, f.callPos, name); a != nil && isLocalCell(a) {
				if v, ok := env.lst.locals[a]; ok {
					return v
				}
			}
		}
	}
	if obj := ex.prog.lookupObject("", name, env.pkg); obj != nil {
		if v, ok := ex.objectVal(obj, env); ok {
			return v
		}
	}
	ex.specFail("unknown name %s", name)
	return nil
}

func (ex *Exec) objectVal(obj types.Object, env *SpecEnv) (Val, bool) {
	switch o := obj.(type) {
	case *types.Const:
		t := o.Type()
		if b, ok := t.(*types.Basic); ok && b.Info()&types.IsUntyped != 0 {
			t = types.Default(t)
		}
		switch o.Val().Kind() {
		case constant.Bool:
			return Scalar{BoolLit(constant.BoolVal(o.Val())), t}, true
		case constant.Int:
			n, _ := new(big.Int).SetString(o.Val().ExactString(), 10)
			return Scalar{BigLit(n), t}, true
		case constant.Float:
			r, _ := new(big.Rat).SetString(o.Val().ExactString())
			return Scalar{RealLit(r), t}, true
		case constant.String:
			return Scalar{ex.stringConst(constant.StringVal(o.Val())), t}, true
		}
	case *types.Var:
		if o.Pkg() != nil && o.Parent() == o.Pkg().Scope() {
			if sp := ex.prog.SSA.Package(o.Pkg()); sp != nil {
				if g := sp.Var(o.Name()); g != nil {
					return ex.load(ex.globalPtr(g), env.st), true
				}
			}
		}
	case *types.Nil:
		return Scalar{IntLit(0), nilType}, true
	}
	return nil, false
}

func (ex *Exec) coerceNil(a, b Val) (Val, Val) {
	if a.GoType() == nilType && b.GoType() != nilType {
		return ex.zeroVal(b.GoType()), b
	}
	if b.GoType() == nilType && a.GoType() != nilType {
		return a, ex.zeroVal(a.GoType())
	}
	return a, b
}

func (ex *Exec) specBinary(x EBinary, env *SpecEnv) Val {
	boolT := types.Typ[types.Bool]
	switch x.Op {
	case "&&":
		return Scalar{And(ex.evalBool(x.X, env), ex.evalBool(x.Y, env)), boolT}
	case "||":
		return Scalar{Or(ex.evalBool(x.X, env), ex.evalBool(x.Y, env)), boolT}
	case "==>":
		return Scalar{Implies(ex.evalBool(x.X, env), ex.evalBool(x.Y, env)), boolT}
	case "<==>":
		return Scalar{Iff(ex.evalBool(x.X, env), ex.evalBool(x.Y, env)), boolT}
	}
	a := ex.evalSpec(x.X, env)
	b := ex.evalSpec(x.Y, env)
	switch x.Op {
	case "==", "!=":
		a, b = ex.coerceNil(a, b)
		a, b = ex.coerceNum(a, b)
		eq := ex.specEqual(a, b)
		if x.Op == "!=" {
			eq = Not(eq)
		}
		return Scalar{eq, boolT}
	}
	a, b = ex.coerceNum(a, b)
	ta, tb := ex.scalar(a), ex.scalar(b)
	ty := a.GoType()
	if b, ok := ty.(*types.Basic); ok && b.Info()&types.IsUntyped != 0 {
		ty = types.Default(ty)
	}
	switch x.Op {
	case "<":
		return Scalar{Lt(ta, tb), boolT}
	case "<=":
		return Scalar{Le(ta, tb), boolT}
	case ">":
		return Scalar{Gt(ta, tb), boolT}
	case ">=":
		return Scalar{Ge(ta, tb), boolT}
	case "+":
		if ta.Sort == SStr {
			return Scalar{ex.strConcat(ta, tb), ty}
		}
		if ta.Sort == SInt && tb.Sort == SInt {
			return Scalar{Add(ta, tb), ty}
		}
		return Scalar{App(ta.Sort, "+", ta, tb), ty}
	case "-":
		if ta.Sort == SInt && tb.Sort == SInt {
			return Scalar{Sub(ta, tb), ty}
		}
		return Scalar{App(ta.Sort, "-", ta, tb), ty}
	case "*":
		if ta.Sort == SInt {
			return Scalar{ex.mulTerm(ta, tb), ty}
		}
		return Scalar{App(ta.Sort, "*", ta, tb), ty}
	case "/":
		if ta.Sort == SReal {
			return Scalar{App(SReal, "/", ta, tb), ty}
		}
		return Scalar{goDiv(ta, tb), ty}
	case "%":
		return Scalar{goMod(ta, tb), ty}
	case "&":
		return Scalar{ex.bitAnd(ta, tb, ty), ty}
	case "|":
		return Scalar{ex.bitOr(ta, tb, ty), ty}
	case "<<":
		if n, ok := isLit(tb); ok {
			return Scalar{App(SInt, "*", ta, BigLit(pow2(n))), ty}
		}
	case ">>":
		if n, ok := isLit(tb); ok {
			return Scalar{App(SInt, "div", ta, BigLit(pow2(n))), ty}
		}
	}
	ex.specFail("unsupported operator %s in %s", x.Op, x)
	return nil
}

// coerceNum lifts an integer operand to Real when the other side is Real.
func (ex *Exec) coerceNum(a, b Val) (Val, Val) {
	sa, okA := a.(Scalar)
	sb, okB := b.(Scalar)
	if !okA || !okB {
		return a, b
	}
	if sa.T.Sort == SReal && sb.T.Sort == SInt {
		return a, Scalar{toReal(sb.T), sa.Ty}
	}
	if sa.T.Sort == SInt && sb.T.Sort == SReal {
		return Scalar{toReal(sa.T), sb.Ty}, b
	}
	return a, b
}

func toReal(t Term) Term {
	if n, ok := isLit(t); ok {
		return Term{fmt.Sprintf("%d.0", n), SReal}
	}
	return App(SReal, "to_real", t)
}

// deref loads through a pointer-typed value so that fields can be selected.
func (ex *Exec) autoDeref(v Val) (PtrV, bool) {
	switch x := v.(type) {
	case PtrV:
		return x, true
	case Scalar:
		if _, ok := under(x.Ty).(*types.Pointer); ok {
			return ex.asPtr(x), true
		}
	}
	return PtrV{}, false
}

func (ex *Exec) specField(x EField, env *SpecEnv) Val {
	// qualified identifier?
	if id, ok := x.X.(EIdent); ok {
		if _, isVar := env.vars[id.Name]; !isVar && (env.fr == nil || ex.findLocalAt(env.fr, env.li, env.pos, id.Name) == nil) {
			if obj := ex.prog.lookupObject(id.Name, x.Name, env.pkg); obj != nil {
				if v, ok := ex.objectVal(obj, env); ok {
					return v
				}
			}
		}
	}
	v := ex.evalSpec(x.X, env)
	return ex.selectField(v, x.Name, env)
}

func (ex *Exec) selectField(v Val, name string, env *SpecEnv) Val {
	t := v.GoType()
	if t == nil {
		ex.specFail("cannot select .%s", name)
	}
	obj, index, _ := types.LookupFieldOrMethod(t, true, env.pkg, name)
	if obj == nil {
		// try unexported field from its own package
		if n, ok := derefNamed(t); ok && n.Obj().Pkg() != nil {
			obj, index, _ = types.LookupFieldOrMethod(t, true, n.Obj().Pkg(), name)
		}
	}
	if _, isVar := obj.(*types.Var); !isVar || obj == nil {
		ex.specFail("no field %s in %s", name, shortType(t))
	}
	cur := v
	for _, fi := range index {
		if p, ok := ex.autoDeref(cur); ok {
			cur = ex.load(p.withStep(Step{Field: fi}, nil), env.st)
			continue
		}
		sv, ok := cur.(StructV)
		if !ok {
			ex.specFail("cannot select field %s of %T", name, cur)
		}
		cur = sv.F[fi]
	}
	return cur
}

func derefNamed(t types.Type) (*types.Named, bool) {
	if p, ok := t.(*types.Pointer); ok {
		t = p.Elem()
	}
	n, ok := t.(*types.Named)
	return n, ok
}

func (ex *Exec) specIndex(x EIndex, env *SpecEnv) Val {
	base := ex.evalSpec(x.X, env)
	idx := ex.scalar(ex.evalSpec(x.I, env))
	if p, ok := ex.autoDeref(base); ok {
		// pointer to array
		if arr, ok := under(p.pointee()).(*types.Array); ok {
			return ex.load(p.withStep(Step{Field: -1, Idx: idx}, nil), env.st)
		} else {
			_ = arr
		}
		base = ex.load(p, env.st)
	}
	sc, ok := base.(Scalar)
	if !ok {
		ex.specFail("cannot index %s", x.X)
	}
	switch u := under(sc.Ty).(type) {
	case *types.Slice:
		return ex.load(PtrV{Kind: rootElem, Slice: sc.T, Idx: idx, RootTy: u.Elem()}, env.st)
	case *types.Array:
		return Scalar{Select(sc.T, idx), u.Elem()}
	case *types.Basic:
		if sc.T.Sort == SStr {
			return Scalar{StrAt(sc.T, idx), types.Typ[types.Uint8]}
		}
	}
	if sc.T.Sort.IsArray() {
		return Scalar{Select(sc.T, idx), nil}
	}
	ex.specFail("cannot index %s of type %s", x.X, shortType(sc.Ty))
	return nil
}

func (ex *Exec) specSlice(x ESlice, env *SpecEnv) Val {
	base := ex.evalSpec(x.X, env)
	sc, ok := base.(Scalar)
	if !ok {
		ex.specFail("cannot slice %s", x.X)
	}
	lo := IntLit(0)
	if x.Lo != nil {
		lo = ex.scalar(ex.evalSpec(x.Lo, env))
	}
	switch sc.T.Sort {
	case SSlice:
		hi := SlLen(sc.T)
		if x.Hi != nil {
			hi = ex.scalar(ex.evalSpec(x.Hi, env))
		}
		return Scalar{MkSlice(SlArr(sc.T), Add(SlOff(sc.T), lo), Sub(hi, lo), Sub(SlCap(sc.T), lo)), sc.Ty}
	case SStr:
		hi := StrLen(sc.T)
		if x.Hi != nil {
			hi = ex.scalar(ex.evalSpec(x.Hi, env))
		}
		return Scalar{MkStr(StrData(sc.T), Add(StrOff(sc.T), lo), Sub(hi, lo)), sc.Ty}
	}
	ex.specFail("cannot slice %s", x.X)
	return nil
}

var quantCounter int

func (ex *Exec) specQuant(x EQuant, env *SpecEnv) Val {
	cur := env
	var bounds []Bound
	var guards []Term
	for _, qv := range x.Vars {
		t, err := ex.prog.lookupType(qv.T, env.pkg)
		if err != nil {
			ex.specFail("%v", err)
		}
		quantCounter++
		name := fmt.Sprintf("%s?%d", qv.Name, quantCounter)
		srt := sortOf(t)
		bv := Var(name, srt)
		bounds = append(bounds, Bound{name, srt})
		if isInteger(t) || srt == SSlice || srt == SIface {
			if g := ex.typeFactTerm(bv, t, nil); !g.IsTrue() {
				guards = append(guards, g)
			}
		}
		cur = cur.with(qv.Name, Scalar{bv, t})
	}
	body := ex.evalBool(x.Body, cur)
	if x.Forall && len(x.Triggers) > 0 {
		var pats [][]Term
		for _, grp := range x.Triggers {
			var ts []Term
			for _, te := range grp {
				ts = append(ts, ex.scalar(ex.evalSpec(te, cur)))
			}
			pats = append(pats, ts)
		}
		return Scalar{ForallPat(bounds, Implies(And(guards...), body), pats), types.Typ[types.Bool]}
	}
	if x.Forall {
		return Scalar{Forall(bounds, Implies(And(guards...), body)), types.Typ[types.Bool]}
	}
	return Scalar{Exists(bounds, And(append(guards, body)...)), types.Typ[types.Bool]}
}

func (ex *Exec) specCall(x ECall, env *SpecEnv) Val {
	id, ok := x.Fun.(EIdent)
	if !ok {
		ex.specFail("cannot call %s in a specification", x.Fun)
	}
	intT := types.Typ[types.Int]
	boolT := types.Typ[types.Bool]
	argv := func(i int) Val { return ex.evalSpec(x.Args[i], env) }
	need := func(n int) {
		if len(x.Args) != n {
			ex.specFail("%s takes %d argument(s)", id.Name, n)
		}
	}
	switch id.Name {
	case "len":
		need(1)
		v := argv(0)
		if p, ok := ex.autoDeref(v); ok {
			if arr, ok := under(p.pointee()).(*types.Array); ok {
				return Scalar{IntLit(arr.Len()), intT}
			}
		}
		t := ex.scalar(v)
		switch t.Sort {
		case SSlice:
			return Scalar{SlLen(t), intT}
		case SStr:
			return Scalar{StrLen(t), intT}
		}
		if arr, ok := under(v.GoType()).(*types.Array); ok {
			return Scalar{IntLit(arr.Len()), intT}
		}
		ex.specFail("len of %s", x.Args[0])
	case "cap":
		need(1)
		return Scalar{SlCap(ex.scalar(argv(0))), intT}
	case "arr": // identity of the backing array of a slice
		need(1)
		return Scalar{SlArr(ex.scalar(argv(0))), intT}
	case "off":
		need(1)
		return Scalar{SlOff(ex.scalar(argv(0))), intT}
	case "fresh": // object (or backing array) did not exist at entry
		need(1)
		t := ex.scalar(argv(0))
		if t.Sort == SSlice {
			t = SlArr(t)
		}
		return Scalar{Ge(t, env.topOld), boolT}
	case "allocated": // the object (or backing array) exists in the current state: distinct from anything allocated later
		need(1)
		t := ex.scalar(argv(0))
		if t.Sort == SSlice {
			t = SlArr(t)
		}
		if t.Sort == SIface {
			t = IfVal(t)
		}
		return Scalar{Lt(t, env.st.top), boolT}
	case "disjoint": // slices over different backing arrays
		need(2)
		a, b := ex.scalar(argv(0)), ex.scalar(argv(1))
		if a.Sort == SSlice {
			a = SlArr(a)
		}
		if b.Sort == SSlice {
			b = SlArr(b)
		}
		return Scalar{Neq(a, b), boolT}
	case "typeis":
		need(2)
		te, err := exprToType(x.Args[1])
		if err != nil {
			ex.specFail("%v", err)
		}
		t, err := ex.prog.lookupType(te, env.pkg)
		if err != nil {
			ex.specFail("%v", err)
		}
		return Scalar{Eq(IfDyn(ex.scalar(argv(0))), ex.vc.typeID(t)), boolT}
	case "recovered":
		need(0)
		if env.recovered != nil {
			return Scalar{*env.recovered, types.NewInterfaceType(nil, nil)}
		}
		if ex.topRecovered != nil {
			return Scalar{*ex.topRecovered, types.NewInterfaceType(nil, nil)}
		}
		return Scalar{NilIface, types.NewInterfaceType(nil, nil)}
	case "mboxfull": // ghost: the one-slot mailbox channel holds a value
		need(1)
		return Scalar{Select(mboxFull(env.st), ex.scalar(argv(0))), boolT}
	case "mbox": // ghost: the value held by the mailbox channel
		need(1)
		cv := argv(0)
		ct, ok := under(cv.GoType()).(*types.Chan)
		if !ok {
			ex.specFail("mbox() takes a channel")
		}
		return ex.mboxGet(ex.scalar(cv), ct.Elem(), env.st)
	case "funcis": // the function value is (statically) the named function
		need(2)
		fv, ok := argv(0).(FuncV)
		name, ok2 := x.Args[1].(EString)
		if !ok2 {
			ex.specFail("funcis takes a string literal")
		}
		return Scalar{BoolLit(ok && (fv.Fn.String() == name.V || strings.HasSuffix(fv.Fn.String(), "/"+name.V))), boolT}
	case "implements":
		need(2)
		te, err := exprToType(x.Args[1])
		if err != nil {
			ex.specFail("%v", err)
		}
		t, err := ex.prog.lookupType(te, env.pkg)
		if err != nil {
			ex.specFail("%v", err)
		}
		ex.noteIface(t)
		return Scalar{ex.implementsTerm(IfDyn(ex.scalar(argv(0))), t), boolT}
	case "dyn":
		need(1)
		return Scalar{IfDyn(ex.scalar(argv(0))), intT}
	case "ref":
		need(1)
		v := ex.scalar(argv(0))
		if v.Sort == SIface {
			return Scalar{IfVal(v), intT}
		}
		return Scalar{v, intT}
	case "idx":
		// number of completed iterations of a range loop (current loop, or loop N)
		li := env.li
		if len(x.Args) == 1 {
			n, ok := x.Args[0].(EInt)
			if !ok {
				ex.specFail("idx takes a literal loop ordinal")
			}
			li = nil
			lfr := env.fr
			for f := env.fr; f != nil && li == nil; f = f.parent {
				for _, l := range f.loops {
					if fmt.Sprint(l.ord) == n.V {
						li, lfr = l, f
					}
				}
				if f.contract != nil {
					break
				}
			}
			if li == nil {
				ex.specFail("idx(%s): no such loop", n.V)
			}
			return Scalar{ex.loopIdx(lfr, li, env.lst), intT}
		}
		if li == nil || env.fr == nil {
			ex.specFail("idx() outside a loop")
		}
		return Scalar{ex.loopIdx(env.fr, li, env.lst), intT}
	case "proving":
		// proving(e): e where the clause is a proof obligation, true where the clause is assumed. For marker terms that
		// should trigger a definitional axiom for the cell being proved but not for every instance of an assumed invariant.
		if len(x.Args) != 1 {
			ex.specFail("proving takes one argument")
		}
		if ex.proving {
			return Scalar{ex.evalBool(x.Args[0], env), types.Typ[types.Bool]}
		}
		return Scalar{True, types.Typ[types.Bool]}
	case "min", "max":
		need(2)
		a, b := ex.scalar(argv(0)), ex.scalar(argv(1))
		if id.Name == "min" {
			return Scalar{Ite(Le(a, b), a, b), intT}
		}
		return Scalar{Ite(Ge(a, b), a, b), intT}
	case "abs":
		need(1)
		return Scalar{App(SInt, "abs", ex.scalar(argv(0))), intT}
	case "int":
		need(1)
		v := argv(0)
		return Scalar{ex.scalar(v), intT}
	case "real":
		need(1)
		return Scalar{toReal(ex.scalar(argv(0))), types.Typ[types.Float64]}
	}
	if gf, ok := ex.prog.Contracts.Ghosts[id.Name]; ok {
		need(1)
		rt, err := ex.prog.lookupType(gf.Ret, env.pkg)
		if err != nil {
			ex.specFail("%v", err)
		}
		a := ex.scalar(argv(0))
		if a.Sort == SIface {
			a = IfVal(a)
		}
		name := "G|" + gf.Name
		heapLeafTypes[name] = rt
		h := env.st.heap(name, ArraySort(sortOf(rt)))
		return Scalar{Select(h, a), rt}
	}
	if g, ok := env.ghosts[id.Name]; ok {
		var args []Term
		for i := range x.Args {
			args = append(args, ex.scalar(argv(i)))
		}
		return Scalar{App(SInt, g, args...), intT}
	}
	sf := ex.prog.Contracts.Spec(id.Name, pkgPathOf(env.pkg))
	if sf == nil {
		ex.specFail("unknown specification function %s", id.Name)
	}
	if len(sf.Params) != len(x.Args) {
		ex.specFail("spec function %s takes %d arguments", sf.Name, len(sf.Params))
	}
	ctx := env.pkg
	if sf.PkgPath != "" {
		if pk := ex.prog.pkgByPath[sf.PkgPath]; pk != nil {
			ctx = pk.Types
		}
	}
	if sf.Body == nil {
		// uninterpreted
		var args []Term
		var sorts []Sort
		for i := range x.Args {
			pt, err := ex.prog.lookupType(sf.Params[i].T, ctx)
			if err != nil {
				ex.specFail("%v", err)
			}
			a := argv(i)
			if a.GoType() == nilType {
				a = ex.zeroVal(pt)
			}
			a = ex.coerceToType(a, pt)
			t := ex.scalar(a)
			if t.Sort != sortOf(pt) {
				ex.specFail("argument %d of %s has the wrong sort", i, sf.Name)
			}
			args = append(args, t)
			sorts = append(sorts, t.Sort)
		}
		rt, err := ex.prog.lookupType(sf.Ret, ctx)
		if err != nil {
			ex.specFail("%v", err)
		}
		f := ex.vc.declareFun("spec|"+sf.Name, sorts, sortOf(rt))
		r := Term{f, sortOf(rt)}
		if len(args) > 0 {
			r = App(sortOf(rt), f, args...)
		}
		return Scalar{r, rt}
	}
	// macro expansion in the caller's state
	ex.specDepth++
	if ex.specDepth > 40 {
		ex.specFail("specification function %s recurses too deeply (recursive specs must be uninterpreted)", sf.Name)
	}
	defer func() { ex.specDepth-- }()
	inner := &SpecEnv{vars: map[string]Val{}, st: env.st, lst: env.lst, pkg: ctx, topOld: env.topOld, isOld: env.isOld, ghosts: env.ghosts, recovered: env.recovered}
	if env.old != nil {
		o := *env.old
		o.vars = map[string]Val{}
		o.pkg = ctx
		o.fr = nil
		inner.old = &o
	}
	for i, p := range sf.Params {
		a := argv(i)
		if pt, err := ex.prog.lookupType(p.T, ctx); err == nil {
			if a.GoType() == nilType {
				a = ex.zeroVal(pt)
			}
			a = ex.coerceToType(a, pt)
		}
		inner.vars[p.Name] = a
		if inner.old != nil {
			inner.old.vars[p.Name] = a
		}
	}
	return ex.evalSpec(sf.Body, inner)
}

// loopIdx is the number of completed iterations of a range loop.
func (ex *Exec) loopIdx(fr *Frame, li *loopInfo, st *State) Term {
	// range over slice/array: hidden local "rangeindex" incremented in the header
	for _, in := range li.header.Instrs {
		switch x := in.(type) {
		case *ssa.Store:
			if a, ok := x.Addr.(*ssa.Alloc); ok && a.Comment == "rangeindex" {
				if v, ok := st.locals[a]; ok {
					return Add(ex.scalar(v), IntLit(1))
				}
			}
		case *ssa.Next:
			if cur, ok := st.iters[x.Iter]; ok {
				return Add(cur, IntLit(1))
			}
		}
	}
	// not a range loop: a counting loop "for i := ...; i < n; i++" - the variable tested in the header plays the part
	// (if it does not count completed iterations, the invariants written with idx() are simply not provable)
	if iff, ok := li.header.Instrs[len(li.header.Instrs)-1].(*ssa.If); ok {
		if cmp, ok := iff.Cond.(*ssa.BinOp); ok {
			for _, side := range []ssa.Value{cmp.X, cmp.Y} {
				if ld, ok := side.(*ssa.UnOp); ok && ld.Op == token.MUL {
					if a, ok := ld.X.(*ssa.Alloc); ok && isLocalCell(a) && storedInLoop(fr.fn, li, a) {
						if v, ok := st.locals[a]; ok {
							ex.vc.Assumptions[fmt.Sprintf("idx() of loop %d of %s read as the number of steps of the loop counter %s (the loop is no longer a range loop)", li.ord, fr.fn.Name(), a.Comment)] = true
							// completed iterations: the counter minus its value on entry to the loop
							if pre := fr.loopPre[li]; pre != nil {
								if v0, ok := pre.locals[a]; ok {
									return Sub(ex.scalar(v), ex.scalar(v0))
								}
							}
							return ex.scalar(v)
						}
					}
				}
			}
		}
	}
	ex.specFail("idx(): loop %d is not a range loop", li.ord)
	return Term{}
}

func storedInLoop(fn *ssa.Function, li *loopInfo, a *ssa.Alloc) bool {
	for _, b := range fn.Blocks {
		if !li.body[b.Index] {
			continue
		}
		for _, in := range b.Instrs {
			if s, ok := in.(*ssa.Store); ok && s.Addr == a {
				return true
			}
		}
	}
	return false
}

func exprToType(e Expr) (TypeExpr, error) {
	var te TypeExpr
	if u, ok := e.(EUnary); ok && u.Op == "*" {
		te.Ptr = true
		e = u.X
	}
	switch x := e.(type) {
	case EIdent:
		te.Name = x.Name
		return te, nil
	case EField:
		if id, ok := x.X.(EIdent); ok {
			te.Pkg, te.Name = id.Name, x.Name
			return te, nil
		}
	}
	return te, fmt.Errorf("%s is not a type", e)
}

func describeVal(v Val) string {
	switch x := v.(type) {
	case Scalar:
		return x.T.S
	case StructV:
		var fs []string
		for _, f := range x.F {
			fs = append(fs, describeVal(f))
		}
		return "{" + strings.Join(fs, ", ") + "}"
	}
	return fmt.Sprintf("%T", v)
}

// specEqual is == in specifications. Strings that are not literals are compared
// structurally (same bytes object, offset and length): stronger than Go's content
// equality, used consistently on the proving and the assuming side.
func (ex *Exec) specEqual(a, b Val) Term {
	if x, ok := a.(StructV); ok {
		y := b.(StructV)
		var cs []Term
		for i := range x.F {
			cs = append(cs, ex.specEqual(x.F[i], y.F[i]))
		}
		return And(cs...)
	}
	ta, tb := ex.scalar(a), ex.scalar(b)
	if ta.Sort == SStr {
		isLitStr := func(t Term) bool { return strings.Contains(t.S, "str!") || t.S == emptyStr.S }
		if isLitStr(ta) || isLitStr(tb) {
			return ex.strEq(ta, tb)
		}
		return Eq(ta, tb)
	}
	return ex.equalVals(a, b)
}

// coerceToType converts a concrete value to an interface-typed parameter (boxing), as Go's assignability does.
func (ex *Exec) coerceToType(a Val, pt types.Type) Val {
	if a.GoType() == nil || !isInterface(pt) || isInterface(a.GoType()) {
		return a
	}
	if sc, ok := a.(Scalar); ok && sc.T.Sort == SIface {
		return a
	}
	return Scalar{ex.boxIface(a, a.GoType()), pt}
}

func pkgPathOf(p *types.Package) string {
	if p == nil {
		return ""
	}
	return p.Path()
}
